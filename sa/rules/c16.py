"""C16  Observing a library never modifies it.

E1  transitive SQL / file-system effect of every observer is within {read, attach}
E2  no observer opens a transaction (constructs sqlite_transaction / BEGIN)
E3  no observer reaches directory creation, schema creation or a stream opened for writing
E4  every ATTACH reachable from an observer sits behind an existence test that throws
E5  classification is total and the analysis is not blind: every mutator has a write
    effect (positive control for the zero-expected rules)
"""
import json
import os
import re

from .. import program, callgraph, effects, sql
from ..frontend import AnalysisBroken, VERIF
from ..program import children, strip, walk, locstr
from ..report import Check

SPEC = os.path.join(VERIF, 'spec', 'observers.json')
TXN = 'djinterop::util::sqlite_transaction'


def api_surface(prog, spec=None):
    """-> (observers, mutators): lists of (label, [Function definitions], decl)"""
    spec = spec or json.load(open(SPEC))
    pats = [re.compile(p) for p in spec['mutator_patterns']]
    obs, mut, skipped = [], [], []
    for cls in spec['classes']:
        if cls not in prog.records:
            raise AnalysisBroken('public class %s not found' % cls)
        for m in effects.public_methods(prog, cls):
            name = m['name']
            label = '%s::%s %s' % (cls, name, m.get('type') or '')
            defs = prog.definitions_for(prog.records[cls].tu, m, cls + '::' + name)
            defs = [d for d in defs if not d.is_pattern and d.body is not None]
            if name in spec['not_database_operations']:
                kind = 'neutral'
            elif any(p.search(name) for p in pats):
                kind = 'mut'
            else:
                kind = 'obs'
            if (cls + '::' + name) in spec['free_observers']:
                kind = 'obs'
            if not defs:
                skipped.append((label, kind))
                continue
            (obs if kind in ('obs', 'neutral') else mut).append((label, defs, kind))
    for qn in spec['free_observers']:
        if any(l.startswith(qn + ' ') for l, _, _ in obs):
            continue
        defs = [f for f in prog.by_name(qn) if not f.is_pattern and f.body is not None]
        if not defs:
            raise AnalysisBroken('observer %s not found' % qn)
        for d in defs:
            obs.append(('%s %s' % (qn, d.type), [d], 'obs'))
    for qn in spec['free_mutators']:
        defs = [f for f in prog.by_name(qn) if not f.is_pattern and f.body is not None]
        if not defs:
            raise AnalysisBroken('mutator %s not found' % qn)
        for d in defs:
            mut.append(('%s %s' % (qn, d.type), [d], 'mut'))
    return obs, mut, skipped


def _sym_path(prog, func, node, depth=0):
    """Symbolic value of a path expression: tuple of ('param', name) / literal string parts.
    Locals initialised once are followed; repository helpers that return an expression over
    their parameters (make_*_path) are inlined."""
    n = strip(node, explicit=True)
    k = n.get('kind')
    if k == 'StringLiteral':
        return (program.decode_string_literal(n.get('value')),)
    if k in ('CXXConstructExpr', 'CXXTemporaryObjectExpr', 'InitListExpr'):
        c = [x for x in children(n) if x.get('kind') != 'CXXDefaultArgExpr']
        if len(c) == 1:
            return _sym_path(prog, func, c[0], depth)
        return None
    if k == 'CXXMemberCallExpr':
        callee = strip(children(n)[0])
        if (callee.get('name') or '').startswith('operator') or callee.get('name') in ('c_str', 'string'):
            return _sym_path(prog, func, children(callee)[0], depth)
        return None
    if k == 'DeclRefExpr':
        ref = n.get('referencedDecl') or {}
        if ref.get('kind') == 'ParmVarDecl':
            return (('param', ref.get('name')),)
        for v in walk(func.body):
            if v.get('kind') == 'VarDecl' and v.get('id') == ref.get('id'):
                init = [x for x in children(v) if not x['kind'].endswith('Attr')]
                if init:
                    return _sym_path(prog, func, init[-1], depth)
        return None
    if k == 'CXXOperatorCallExpr':
        c = children(n)
        if (strip(c[0]).get('referencedDecl') or {}).get('name') == 'operator+':
            a, b = _sym_path(prog, func, c[1], depth), _sym_path(prog, func, c[2], depth)
            if a is None or b is None:
                return None
            return _join(a + b)
        return None
    if k == 'CallExpr' and depth < 3:
        d, qn, virt, recv = prog.resolve_callee(func.tu, n)
        defs = prog.definitions_for(func.tu, d, qn) if d is not None else []
        if len(defs) == 1 and defs[0].body is not None:
            g = defs[0]
            rets = [x for x in walk(g.body) if x.get('kind') == 'ReturnStmt']
            if len(rets) == 1 and children(rets[0]):
                inner = _sym_path(prog, g, children(rets[0])[0], depth + 1)
                if inner is None:
                    return None
                args = children(n)[1:]
                names = [p.get('name') for p in g.params]
                out = ()
                for part in inner:
                    if isinstance(part, tuple) and part[0] == 'param' and part[1] in names:
                        sub = _sym_path(prog, func, args[names.index(part[1])], depth)
                        if sub is None:
                            return None
                        out += sub
                    else:
                        out += (part,)
                return _join(out)
        nm = (strip(children(n)[0]).get('referencedDecl') or {}).get('name')
        if nm in ('move', 'forward') and len(children(n)) == 2:
            return _sym_path(prog, func, children(n)[1], depth)
    return None


def _join(parts):
    out = []
    for p in parts:
        if isinstance(p, str) and out and isinstance(out[-1], str):
            out[-1] += p
        else:
            out.append(p)
    return tuple(out)


def _show_path(sp):
    if sp is None:
        return '<unknown>'
    return ' + '.join(repr(p) if isinstance(p, str) else p[1] for p in sp)


_EXIST_FUNCS = {}


def _is_existence_test(prog, func, call):
    """The callee is a file-existence test: a library function of that meaning, or a repository
    function whose body calls stat / access / std::filesystem::exists and returns bool."""
    d, qn, virt, recv = prog.resolve_callee(func.tu, call)
    name = (strip(children(call)[0]).get('referencedDecl') or {}).get('name') or ''
    if d is None:
        return name in ('exists', 'is_regular_file', 'access', 'stat')
    if qn in _EXIST_FUNCS:
        return _EXIST_FUNCS[qn]
    defs = prog.definitions_for(func.tu, d, qn)
    ok = False
    for g in defs:
        if g.body is None or 'bool' not in (g.ret or ''):
            continue
        for x in walk(g.body):
            if x.get('kind') == 'CallExpr':
                nm = (strip(children(x)[0]).get('referencedDecl') or {}).get('name')
                if nm in ('stat', '_stat', 'access', '_access', 'exists', 'is_regular_file', 'PathFileExistsA'):
                    ok = True
    _EXIST_FUNCS[qn] = ok
    return ok


# ---------------------------------------------------------------------------------------------
# Existence facts.  What matters is whether, on every way of reaching an open / ATTACH, the file it
# names is known to exist (loaders) or known to be absent (creators) - not where the test is
# written.  A small must-analysis over the structured AST computes, for every point of a function,
# the set of literals (path, exists?) that hold there:
#   * conditions are read as formulas over `path_exists(P)` atoms: !, &&, ||, named boolean flags
#     (single-assignment locals), repository predicates that return such a formula over their
#     parameters, std::any_of / all_of / none_of over a local list of paths;
#   * `if` refines both branches, a branch that throws / returns contributes nothing to what follows
#     (so the guard-clause form and the early-return form are the same thing);
#   * a call of a repository function adds what holds at every normal exit of the callee (a check
#     factored into an `ensure_...` helper), with arguments substituted for parameters;
#   * an obligation that the function of the site cannot discharge itself is handed to every caller
#     on the way from the roots, the callee's parameters replaced by the caller's arguments (the
#     open / ATTACH factored into a helper that takes the paths).

_UNK = ('unk',)
_QUANT = {'any_of': 'or', 'all_of': 'and', 'none_of': 'nor'}


def _subst_sp(sp, mapping):
    """Replace ('param', name) parts by the caller-side symbolic value; None if one is unknown."""
    if sp is None:
        return None
    out = ()
    for part in sp:
        if isinstance(part, tuple) and part[0] == 'param' and part[1] in mapping:
            v = mapping[part[1]]
            if v is None:
                return None
            out += v
        else:
            out += (part,)
    return _join(out)


def _subst_formula(fm, mapping):
    k = fm[0]
    if k == 'exists':
        return ('exists', _subst_sp(fm[1], mapping))
    if k == 'not':
        return ('not', _subst_formula(fm[1], mapping))
    if k in ('and', 'or'):
        return (k, _subst_formula(fm[1], mapping), _subst_formula(fm[2], mapping))
    return fm


def _assume(fm, truth):
    """Literals (path, exists?) implied by `fm == truth`; None = contradiction (unreachable)."""
    k = fm[0]
    if k == 'exists':
        return frozenset([(fm[1], truth)]) if fm[1] is not None else frozenset()
    if k == 'not':
        return _assume(fm[1], not truth)
    if k == 'const':
        return frozenset() if fm[1] == truth else None
    if k in ('and', 'or'):
        a, b = _assume(fm[1], truth), _assume(fm[2], truth)
        if (k == 'and') == truth:       # both operands are known
            return None if a is None or b is None else a | b
        if a is None:
            return b
        if b is None:
            return a
        return a & b
    return frozenset()


def _meet(a, b):
    """Join of two control-flow paths: what holds on both (None = path does not arrive)."""
    if a is None:
        return b
    if b is None:
        return a
    return a & b


def _plus(facts, more):
    if facts is None or more is None:
        return None
    return facts | more


def _lambda_parts(lam):
    """(parameter names, body) of a LambdaExpr."""
    body = None
    names = []
    for c in children(lam):
        if c.get('kind') == 'CompoundStmt':
            body = c
        elif c.get('kind') == 'CXXRecordDecl':
            for m in children(c):
                if m.get('kind') == 'CXXMethodDecl' and m.get('name') == 'operator()':
                    names = [p.get('name') for p in children(m) if p.get('kind') == 'ParmVarDecl']
    return names, body


def _single_return(body):
    rets = [x for x in walk(body) if x.get('kind') == 'ReturnStmt']
    if len(rets) == 1 and children(rets[0]) and all(
            st.get('kind') in ('DeclStmt', 'ReturnStmt', 'NullStmt') for st in children(body)):
        return children(rets[0])[0]
    return None


def _bind_args(prog, caller, call, callee):
    """parameter name of callee -> symbolic path of the argument at this call (None if not a path)."""
    c = children(call)
    k = call.get('kind')
    if k in ('CXXConstructExpr', 'CXXTemporaryObjectExpr'):
        args = c
    elif k == 'CXXOperatorCallExpr' and callee.kind == 'CXXMethodDecl':
        args = c[2:]
    else:
        args = c[1:]
    out = {}
    for p, a in zip(callee.params, args):
        out[p.get('name')] = None if a.get('kind') == 'CXXDefaultArgExpr' else _sym_path(prog, caller, a)
    for p in callee.params[len(args):]:
        out[p.get('name')] = None
    return out


class ExistenceFlow:
    """Per-function must-facts about file existence (see the comment above)."""

    def __init__(self, prog, cg):
        self.prog = prog
        self.cg = cg
        self._at = {}
        self._exit = {}
        self._active = []

    # ---- conditions -> formulas -------------------------------------------------------------
    def _callee(self, func, call):
        d, qn, virt, recv = self.prog.resolve_callee(func.tu, call)
        if d is None or virt:
            return None
        defs = [g for g in self.prog.definitions_for(func.tu, d, qn) if g.body is not None and not g.is_pattern]
        if len(defs) == 1 and self.prog.in_repo(defs[0].file):
            return defs[0]
        return None

    def formula(self, func, expr, depth=0):
        n = strip(expr, explicit=True)
        k = n.get('kind')
        if k == 'CXXBoolLiteralExpr':
            return ('const', bool(n.get('value')))
        if k == 'UnaryOperator' and n.get('opcode') == '!':
            return ('not', self.formula(func, children(n)[0], depth))
        if k == 'BinaryOperator' and n.get('opcode') in ('&&', '||'):
            c = children(n)
            return ('and' if n['opcode'] == '&&' else 'or',
                    self.formula(func, c[0], depth), self.formula(func, c[1], depth))
        if k == 'BinaryOperator' and n.get('opcode') in ('==', '!='):
            c = children(n)
            for a, b in ((c[0], c[1]), (c[1], c[0])):
                lit = strip(b, explicit=True)
                if lit.get('kind') == 'CXXBoolLiteralExpr':
                    fm = self.formula(func, a, depth)
                    return fm if bool(lit.get('value')) == (n['opcode'] == '==') else ('not', fm)
            return _UNK
        if k == 'DeclRefExpr' and depth < 6:
            ref = n.get('referencedDecl') or {}
            init = program.single_assignment_locals(func.node).get(ref.get('id')) \
                if ref.get('kind') == 'VarDecl' else None
            if init is not None and 'bool' in (n.get('type') or ''):
                return self.formula(func, init, depth + 1)
            return _UNK
        if k == 'CallExpr' and len(children(n)) > 1:
            name = (strip(children(n)[0]).get('referencedDecl') or {}).get('name') or ''
            if _is_existence_test(self.prog, func, n):
                return ('exists', _sym_path(self.prog, func, children(n)[1]))
            if name in _QUANT:
                return self._quantifier(func, n, name, depth)
            g = self._callee(func, n)
            if g is not None and 'bool' in (g.ret or '') and depth < 6:
                ret = _single_return(g.body)
                if ret is not None:
                    return _subst_formula(self.formula(g, ret, depth + 1), _bind_args(self.prog, func, n, g))
        return _UNK

    def _quantifier(self, func, call, name, depth):
        """std::any_of / all_of / none_of (first, last, pred) over a local list of paths."""
        args = children(call)[1:]
        if len(args) != 3:
            return _UNK
        conts = []
        for a in args[:2]:
            a = strip(a, explicit=True)
            c = children(a)
            if a.get('kind') == 'CXXMemberCallExpr' and c:
                m = strip(c[0])
                if m.get('kind') == 'MemberExpr' and m.get('name') in ('begin', 'end', 'cbegin', 'cend') and children(m):
                    conts.append((m.get('name').lstrip('c'), strip(children(m)[0], explicit=True)))
                    continue
            if a.get('kind') == 'CallExpr' and len(c) == 2 and \
                    (strip(c[0]).get('referencedDecl') or {}).get('name') in ('begin', 'end', 'cbegin', 'cend'):
                conts.append(((strip(c[0]).get('referencedDecl') or {}).get('name').lstrip('c'),
                              strip(c[1], explicit=True)))
                continue
            return _UNK
        if [x[0] for x in conts] != ['begin', 'end']:
            return _UNK
        ids = [(x[1].get('referencedDecl') or {}).get('id') for x in conts]
        if ids[0] is None or ids[0] != ids[1]:
            return _UNK
        init = program.single_assignment_locals(func.node).get(ids[0])
        if init is None:
            return _UNK
        lst = strip(init, explicit=True)
        while lst.get('kind') in ('InitListExpr', 'CXXStdInitializerListExpr', 'CXXConstructExpr') and \
                len(children(lst)) == 1 and strip(children(lst)[0], explicit=True).get('kind') in (
                    'InitListExpr', 'CXXStdInitializerListExpr'):
            lst = strip(children(lst)[0], explicit=True)
        if lst.get('kind') != 'InitListExpr' or not children(lst):
            return _UNK
        elems = [_sym_path(self.prog, func, e) for e in children(lst)]
        pred = strip(args[2], explicit=True)
        while pred.get('kind') in ('CXXConstructExpr',) and len(children(pred)) == 1:
            pred = strip(children(pred)[0], explicit=True)
        parts = []
        for sp in elems:
            if pred.get('kind') == 'LambdaExpr':
                names, body = _lambda_parts(pred)
                ret = _single_return(body) if body is not None else None
                if ret is None or len(names) != 1:
                    return _UNK
                parts.append(_subst_formula(self.formula(func, ret, depth + 1), {names[0]: sp}))
            else:
                return _UNK
        op = _QUANT[name]
        fm = parts[0]
        for x in parts[1:]:
            fm = ('and' if op == 'and' else 'or', fm, x)
        return ('not', fm) if op == 'nor' else fm

    # ---- statements -------------------------------------------------------------------------
    def _analyse(self, func):
        if func.key in self._at:
            return
        at = self._at[func.key] = {}
        exits = []
        self._active.append(func.key)
        try:
            out = self._stmt(func, func.body, frozenset(), at, exits)
        finally:
            self._active.pop()
        if out is not None:
            exits.append(out)
        post = None
        for e in exits:
            post = _meet(post, e)
        self._exit[func.key] = post if exits else None

    def _leaf(self, func, n, facts, at):
        for x in walk(n):
            at[id(x)] = facts

    def _after_call(self, func, n, facts):
        """Facts established by a repository callee on all of its normal exits."""
        top = strip(n, explicit=True)
        if facts is None or top.get('kind') not in ('CallExpr', 'CXXMemberCallExpr'):
            return facts
        g = self._callee(func, top)
        if g is None or g.key in self._active or len(self._active) > 3:
            return facts
        self._analyse(g)
        post = self._exit.get(g.key)
        if post is None:
            return facts if g.key not in self._exit else None     # the callee never returns normally
        m = _bind_args(self.prog, func, top, g)
        more = set()
        for sp, pol in post:
            sp2 = _subst_sp(sp, m)
            if sp2 is not None:
                more.add((sp2, pol))
        return facts | frozenset(more)

    def _stmt(self, func, n, facts, at, exits):
        k = n.get('kind')
        at[id(n)] = facts
        if k == 'CompoundStmt':
            for st in children(n):
                facts = self._stmt(func, st, facts, at, exits)
            return facts
        if k == 'IfStmt':
            c = children(n)
            if n.get('hasInit'):
                facts = self._stmt(func, c.pop(0), facts, at, exits)
            if n.get('hasVar'):
                self._leaf(func, c.pop(0), facts, at)
            self._leaf(func, c[0], facts, at)
            fm = self.formula(func, c[0]) if facts is not None else _UNK
            out_t = self._stmt(func, c[1], _plus(facts, _assume(fm, True)), at, exits)
            f_e = _plus(facts, _assume(fm, False))
            out_e = self._stmt(func, c[2], f_e, at, exits) if len(c) > 2 else f_e
            return _meet(out_t, out_e)
        if k == 'ReturnStmt':
            self._leaf(func, n, facts, at)
            if facts is not None:
                exits.append(facts)
            return None
        if k in ('BreakStmt', 'ContinueStmt'):
            return None
        if k in ('ForStmt', 'WhileStmt', 'CXXForRangeStmt', 'DoStmt'):
            c = children(n)
            body = c[0] if k == 'DoStmt' else c[-1]
            inner = facts
            for x in c:
                if x is not body:
                    self._leaf(func, x, facts, at)
            if k == 'WhileStmt' and facts is not None:
                inner = _plus(facts, _assume(self.formula(func, c[0]), True))
            self._stmt(func, body, inner, at, exits)
            return facts
        if k == 'CXXTryStmt':
            c = children(n)
            out = self._stmt(func, c[0], facts, at, exits)
            for h in c[1:]:
                hc = children(h)
                for x in hc[:-1]:
                    self._leaf(func, x, facts, at)
                if hc:
                    out = _meet(out, self._stmt(func, hc[-1], facts, at, exits))
            return out
        if k == 'SwitchStmt':
            c = children(n)
            for x in c[:-1]:
                self._leaf(func, x, facts, at)
            body = c[-1]
            for st in (children(body) if body.get('kind') == 'CompoundStmt' else [body]):
                self._stmt(func, st, facts, at, exits)
            return facts
        if k in ('CaseStmt', 'DefaultStmt', 'LabelStmt', 'AttributedStmt'):
            c = children(n)
            for x in c[:-1]:
                self._leaf(func, x, facts, at)
            return self._stmt(func, c[-1], facts, at, exits) if c else facts
        self._leaf(func, n, facts, at)
        if strip(n, explicit=True).get('kind') == 'CXXThrowExpr':
            return None
        if k == 'DeclStmt':
            for v in children(n):
                if v.get('kind') == 'VarDecl':
                    init = [x for x in children(v) if not x['kind'].endswith('Attr') and not x['kind'].endswith('Comment')]
                    if init:
                        facts = self._after_call(func, init[-1], facts)
            return facts
        return self._after_call(func, n, facts)

    # ---- queries ----------------------------------------------------------------------------
    def facts_at(self, func, node):
        """Literals that hold whenever `node` (any node of func's body) is evaluated; None = never."""
        self._analyse(func)
        return self._at[func.key].get(id(node), frozenset())


def _open_sites(prog, cg, reach):
    """Connection-opening constructs in reachable functions: sqlite::database{path}."""
    out = []
    for key, (f, _, _) in reach.items():
        if f.body is None or f.is_pattern:
            continue
        for n in walk(f.body):
            if n.get('kind') in ('CXXConstructExpr', 'CXXTemporaryObjectExpr') and \
                    'sqlite::database' in (n.get('type') or '') and 'binder' not in (n.get('type') or ''):
                args = [a for a in children(n) if a.get('kind') != 'CXXDefaultArgExpr']
                if len(args) != 1:
                    continue
                a0 = strip(args[0])
                ct = (n.get('ctorType') or '').replace('sqlite::', '')
                if any('sqlite::database' in (a0.get(k) or '') for k in ('type', 'dtype')) or \
                        re.match(r'void \((const )?database &&?\)', ct):
                    continue    # copy / move of a handle (also of a by-value parameter through std::move)
                out.append((f, n, args[0]))
    return out


def open_sequence(prog, cg, eff, f, depth=0):
    """[(kind, alias, symbolic path)]: the connections f opens and the files it attaches, in the order
    in which they happen.  The sequence of a repository callee is spliced in at the call, its
    parameters replaced by the arguments (the open + ATTACH statements shared by create and load
    through a helper that takes the paths are still create's and load's own sequence)."""
    def pos(loc):
        return (loc[3] if loc and len(loc) > 3 and loc[3] is not None else (loc[1] if loc else 0),)
    ev = []
    for s in eff.sites(f):
        st = s.stored_in
        if st is not None and st.kind == 'attach':
            sp = _sym_path(prog, f, s.binds[0]) if s.binds else ('literal',)
            ev.append((pos(s.loc), 'attach', (st.name or '').strip("'\"").lower(), sp))
    for g, n, arg in _open_sites(prog, cg, {f.key: (f, None, None)}):
        sp = _sym_path(prog, g, arg)
        if sp != (':memory:',):
            ev.append((pos(n.get('loc')), 'open', 'main', sp))
    if depth < 3:
        for e in cg.edges(f):
            for t in e.targets:
                if t.body is None or t.is_pattern or not prog.in_repo(t.file) or t.key == f.key:
                    continue
                sub = open_sequence(prog, cg, eff, t, depth + 1)
                if not sub:
                    continue
                m = _bind_args(prog, f, e.node, t)
                for i, (kind, alias, sp) in enumerate(sub):
                    ev.append((pos(e.node.get('loc')) + (i,), kind, alias,
                               sp if sp == ('literal',) else _subst_sp(sp, m)))
    ev.sort(key=lambda x: x[0])
    return [(kind, alias, sp) for _, kind, alias, sp in ev]


def _rev_edges(cg, reach):
    rev = {}
    for key, (g, _, _) in reach.items():
        if g.body is None or g.is_pattern:
            continue
        for e in cg.edges(g):
            for t in e.targets:
                rev.setdefault(t.key, []).append((g, e.node))
    return rev


_FLOWS = {}


def existence_flow(prog, cg):
    fl = _FLOWS.get(id(prog))
    if fl is None:
        fl = _FLOWS[id(prog)] = ExistenceFlow(prog, cg)
    return fl


def _existence_guards(prog, func, before_node):
    """Symbolic paths known to exist whenever before_node is evaluated, as far as func itself
    establishes it (guard clause, early return, named flags, predicate / ensure helpers)."""
    facts = existence_flow(prog, callgraph.get(prog)).facts_at(func, before_node)
    if facts is None:
        return []
    return [sp for sp, pol in sorted(facts, key=str) if pol]


def prove_exists(prog, cg, rev, func, node, sp, depth=0, tested=None, proved=None):
    """Is the file `sp` known to exist on every way from the roots (whose call edges are `rev`) to
    `node` in func?  Discharged by func itself, or by every caller with its arguments substituted."""
    fl = existence_flow(prog, cg)
    facts = fl.facts_at(func, node)
    if facts is None:
        return True
    if tested is not None:
        tested.extend('%s: %s' % (func.name, _show_path(p)) for p, pol in sorted(facts, key=str) if pol)
    if sp is None:
        return False
    if (sp, True) in facts:
        if proved is not None:
            proved.append(sp)
        return True
    callers = rev.get(func.key, [])
    if not callers or depth >= 4:
        return False
    for g, cn in callers:
        sp2 = _subst_sp(sp, _bind_args(prog, g, cn, func))
        if not prove_exists(prog, cg, rev, g, cn, sp2, depth + 1, tested, proved):
            return False
    return True


def guarded_opens(prog, cg, eff, chk, rid, roots, consequence=None):
    """Every ATTACH / sqlite::database{path} open reachable from `roots` happens only when the very
    path it opens is known to exist (symbolic path equality).  Shared with C13: a loader that probes
    one path and opens another both misreports what is there and creates the file it opens."""
    es, reach = eff.transitive(roots)
    rev = _rev_edges(cg, reach)
    attach_why, open_why = consequence or (
        'what the loader reports as present is not what it opens (and attaching a missing file creates it)',
        'a directory without that file is reported as a library (and the open creates the file)')
    n = 0
    seen = set()
    for e in sorted((e for e in es if e.cls == 'attach'), key=lambda e: e.loc):
        loc = e.loc
        if loc in seen:
            continue
        seen.add(loc)
        n += 1
        if not e.site.binds:
            chk.violation(rid, '%s|attach literal' % e.func.qualname, loc,
                          'ATTACH of a literal target on a load path: %s' % e.stmt.text())
            continue
        sp = _sym_path(prog, e.func, e.site.binds[0])
        tested = []
        inst = '%s: %s of %s' % (e.func.qualname, e.stmt.text(), _show_path(sp))
        if prove_exists(prog, cg, rev, e.func, e.site.node, sp, tested=tested):
            chk.ok(rid, inst + ' only where that path is known to exist', loc)
        else:
            chk.violation(rid, '%s|attach %s' % (e.func.qualname.split('::')[-1], _show_path(sp)), loc,
                          '%s: not every way of reaching it has tested this very path (known to exist there: %s): %s'
                          % (inst, sorted(set(tested)), attach_why))
    for f, node, arg in _open_sites(prog, cg, reach):
        sp = _sym_path(prog, f, arg)
        loc = locstr(node)
        inst = '%s opens sqlite::database{%s}' % (f.qualname, _show_path(sp))
        n += 1
        if sp == (':memory:',):
            chk.ok(rid, inst + ' (in-memory)', loc)
            continue
        tested = []
        if prove_exists(prog, cg, rev, f, node, sp, tested=tested):
            chk.ok(rid, inst + ' only where that path is known to exist', loc)
        else:
            chk.violation(rid, '%s|open %s' % (f.qualname.split('::')[-1], _show_path(sp)), loc,
                          '%s: not every way of reaching it has tested this very path (known to exist there: %s): %s'
                          % (inst, sorted(set(tested)), open_why))
    return n


def _atoms(fm, out):
    if fm[0] == 'exists':
        if fm[1] is not None:
            out.add(fm[1])
    elif fm[0] in ('not', 'and', 'or'):
        for x in fm[1:]:
            _atoms(x, out)
    return out


def _norm_dir(sp):
    """A path relative to the library directory, whatever the parameter holding the directory is called."""
    return tuple(x if isinstance(x, str) else ('param', 'directory') for x in sp)


def creators_refuse_existing(prog, cg, eff, chk, rid):
    """A library is created only where none exists.  On every way from create_database to a statement
    that opens / attaches a file of a new on-disk library, every file the load side probes (layout
    detection) or demands (the loaders' own existence tests) is known to be absent: the refusal may be
    a guard of the opening function, of a caller, or of an `ensure_...` helper, written with ||, a
    named flag or std::any_of over the list of files.  A way on which the opened file is known to
    exist is a loading way and carries no obligation."""
    fl = existence_flow(prog, cg)
    det = prog.func('djinterop::engine::detect_is_database2')
    probed = set()
    for n in walk(det.body):
        if n.get('kind') == 'CallExpr' and 'bool' in (n.get('type') or ''):
            for sp in _atoms(fl.formula(det, n), set()):
                if len(sp) > 1:
                    probed.add(_norm_dir(sp))
    if len(probed) < 2:
        raise AnalysisBroken('detect_is_database2 probes %d file(s); expected the m.db of both layouts' % len(probed))
    lroot = prog.func('djinterop::engine::load_database', 'engine_schema &')
    les, lreach = eff.transitive([lroot])
    lrev = _rev_edges(cg, lreach)
    for e in les:
        if e.cls == 'attach' and e.site is not None and e.site.binds:
            got = []
            if prove_exists(prog, cg, lrev, e.func, e.site.node, _sym_path(prog, e.func, e.site.binds[0]), proved=got):
                probed.update(_norm_dir(sp) for sp in got if len(sp) > 1)
    root = prog.func('djinterop::engine::create_database')
    es, reach = eff.transitive([root])
    rev = _rev_edges(cg, reach)

    def missing_on(f, node, sp, acc, depth):
        """[set of probed paths not refused] per way of reaching node on which the file is created."""
        facts = fl.facts_at(f, node)
        if facts is None or (sp is not None and (sp, True) in facts):
            return []
        acc = acc | frozenset(p for p, pol in facts if not pol)
        gap = probed - set(_norm_dir(p) for p in acc)
        if not gap:
            return []
        callers = rev.get(f.key, [])
        if not callers or depth >= 4:
            return [gap]
        out = []
        for g, cn in callers:
            m = _bind_args(prog, g, cn, f)
            acc2 = frozenset(x for x in (_subst_sp(p, m) for p in acc) if x is not None)
            out += missing_on(g, cn, _subst_sp(sp, m), acc2, depth + 1)
        return out
    sites = []
    for e in es:
        if e.cls == 'attach' and e.site is not None and e.site.binds:
            sites.append((e.func, e.site.node, _sym_path(prog, e.func, e.site.binds[0])))
    for f, node, arg in _open_sites(prog, cg, reach):
        sp = _sym_path(prog, f, arg)
        if sp != (':memory:',):
            sites.append((f, node, sp))
    openers = {}
    for f, node, sp in sites:
        tested = []
        if prove_exists(prog, cg, rev, f, node, sp, tested=tested):
            continue        # every way to it demands the file: a loader reached through the class hierarchy
        openers.setdefault(f.key, (f, []))[1].extend(missing_on(f, node, sp, frozenset(), 0))
    if not openers:
        raise AnalysisBroken('create_database reaches no function that opens a database file')
    for key, (f, gaps) in sorted(openers.items(), key=lambda kv: kv[1][0].qualname):
        chk.analysed(f)
        short = f.qualname.replace('djinterop::engine::', '')
        missing = sorted(set().union(*gaps), key=str) if gaps else []
        if not missing:
            chk.ok(rid, '%s opens the files of a new library only where %s are known to be absent' % (
                short, ', '.join(_show_path(x) for x in sorted(probed, key=str))), locstr(f.node))
        else:
            chk.violation(rid, '%s|creates over %s' % (short, ', '.join(_show_path(x) for x in missing)),
                          locstr(f.node),
                          '%s opens the files of a new library without refusing when %s is already there: '
                          'create_database then succeeds in a directory that holds a library, and load_database '
                          'rejects a directory with both layouts - the library just created is not recognised on '
                          'load' % (short, ' / '.join(_show_path(x) for x in missing)))


def handle_state_untouched(prog, cg, chk, E6, obs):
    """Observing twice gives the same answer only if the first observation leaves the handle as it
    was: no member function of the library reached from an observer assigns to, or moves from, a
    data member of its own object (constructors, destructors and assignment operators excepted: they
    build the objects that are returned)."""
    seen = set()
    n = 0
    for label, defs, kind in obs:
        reach = cg.reachable(defs)
        for k, (g, _, _) in reach.items():
            if k in seen or g.body is None or g.cls is None or not prog.in_repo(g.file):
                continue
            seen.add(k)
            if g.kind in ('CXXConstructorDecl', 'CXXDestructorDecl') or g.name.startswith('operator'):
                continue
            if g.cls == TXN or '(lambda' in (g.qualname or ''):
                continue
            n += 1
            bad = None

            def is_own_member(e):
                e = strip(e, explicit=True)
                if e.get('kind') != 'MemberExpr':
                    return False
                c = children(e)
                b = strip(c[0], explicit=True) if c else {}
                return b.get('kind') == 'CXXThisExpr' or not c
            for x in walk(g.body):
                kk = x.get('kind')
                if kk == 'CallExpr' and (strip(children(x)[0]).get('referencedDecl') or {}).get('name') == 'move' \
                        and len(children(x)) > 1 and is_own_member(children(x)[1]):
                    bad = ('moves from its member %s' % strip(children(x)[1], explicit=True).get('name'), x)
                elif kk in ('BinaryOperator', 'CompoundAssignOperator') and (x.get('opcode') or '').endswith('=') \
                        and x.get('opcode') not in ('==', '!=', '<=', '>=') and is_own_member(children(x)[0]):
                    bad = ('assigns its member %s' % strip(children(x)[0], explicit=True).get('name'), x)
                elif kk == 'CXXOperatorCallExpr' and len(children(x)) > 2 and \
                        (strip(children(x)[0]).get('referencedDecl') or {}).get('name') == 'operator=' \
                        and is_own_member(children(x)[1]):
                    bad = ('assigns its member %s' % strip(children(x)[1], explicit=True).get('name'), x)
                if bad:
                    break
            short = '::'.join((g.qualname or '').split('::')[-2:])
            if bad:
                chk.violation(E6, '%s|%s' % (short, bad[0]), locstr(bad[1]),
                              '%s, reached from observer %s, %s: the handle is not the same after the observation, '
                              'so a repeated observation answers differently (or dereferences a moved-from pointer)'
                              % (short, label, bad[0]))
            else:
                chk.ok(E6, '%s leaves the members of its object untouched' % short, locstr(g.node))
    return n


def run(tier='quick'):
    prog = program.load()
    cg = callgraph.get(prog)
    eff = effects.Effects(prog, cg)
    chk = Check('C16', tier)
    chk.units = len(prog.tus)
    spec = json.load(open(SPEC))
    allowed = set(spec['allowed_observer_effects'])
    E1 = chk.rule('E1', 'the transitive effect (over the resolved call graph, virtual calls to every '
                        'overrider) of every observing public operation contains only SELECT / read-only '
                        'PRAGMA statements and ATTACH of existing files', floor=130)
    E2 = chk.rule('E2', 'no observing operation constructs a sqlite_transaction or issues '
                        'BEGIN / COMMIT / ROLLBACK', floor=130)
    E3 = chk.rule('E3', 'no observing operation reaches create_dir, a schema creator\'s create(), '
                        'a stream opened for writing or a statement whose text is not a literal', floor=130)
    E4 = chk.rule('E4', 'every ATTACH and every sqlite::database{path} open reachable from an observing '
                        'operation is reached only where the very same symbolic path is known to exist: a '
                        'path_exists(P) test whose failure throws / returns, made by the function itself, by a '
                        'helper it calls or by every caller (loading never creates a database file that is '
                        'missing)', floor=4)
    E5 = chk.rule('E5', 'positive control: every mutating public operation shows a write / ddl / '
                        'dynamic statement in its transitive effect (the effect analysis sees through '
                        'the same call graph the observers are judged on)', floor=100)
    chk.assume('a SELECT or a read-only PRAGMA fires no trigger and changes no content (SQLite)')
    chk.assume('opening a connection on an existing file and ATTACHing an existing file do not change '
               'its content')
    chk.note('E4 compares symbolic path values (parameter + literal parts, helpers inlined, arguments substituted '
             'for parameters across calls), so a guard on the directory does not discharge an open of a file inside it')

    obs, mut, skipped = api_surface(prog, spec)
    creators = set()
    for f in prog.functions.values():
        if f.cls and '::schema::schema_' in (f.cls or '') and f.name in (
                'create', 'create_music_schema', 'create_performance_schema'):
            creators.add(f.key)

    n_read_sites = set()
    for label, defs, kind in obs:
        for d in defs:
            chk.analysed(d)
        es, reach = eff.transitive(defs)
        for k in reach:
            chk.analysed(reach[k][0])
        where = '%s:%s' % (program.rel(defs[0].file), defs[0].line)
        # E1
        bad = [e for e in es if e.cls in ('write', 'ddl', 'pragma')]
        if kind == 'neutral':
            bad = list(es)
        if bad:
            for e in bad[:5]:
                chk.violation(E1, '%s|%s %s' % (label.split(' ')[0], e.cls, e.table), where,
                              'observer %s reaches a %s statement on %s at %s via %s' % (
                                  label, e.cls, e.table, e.loc,
                                  ' -> '.join(q for q, _ in cg.path_to(reach, e.func.key))),
                              facts={'statement': e.stmt.text() if e.stmt is not None else None,
                                     'path': cg.path_to(reach, e.func.key)},
                              instance=label)
        else:
            chk.ok(E1, label, where, detail={'reachable_functions': len(reach),
                                             'read_statements': sum(1 for e in es if e.cls == 'read')})
        for e in es:
            if e.cls == 'read':
                n_read_sites.add(e.loc)
        # E2
        tx = [e for e in es if e.cls == 'txn']
        txc = [k for k in reach if reach[k][0].cls == TXN]
        if tx or txc:
            k0 = (tx[0].func.key if tx else txc[0])
            chk.violation(E2, '%s|transaction' % label.split(' ')[0], where,
                          'observer %s opens / ends a transaction via %s' % (
                              label, ' -> '.join(q for q, _ in cg.path_to(reach, k0))),
                          facts={'path': cg.path_to(reach, k0)}, instance=label)
        else:
            chk.ok(E2, label, where)
        # E3
        bad3 = [e for e in es if e.cls in ('fs', 'dynsql')]
        cr = [k for k in reach if k in creators or reach[k][0].qualname == 'djinterop::util::create_dir']
        if bad3 or cr:
            k0 = bad3[0].func.key if bad3 else cr[0]
            chk.violation(E3, '%s|%s' % (label.split(' ')[0], reach[k0][0].qualname), where,
                          'observer %s reaches %s via %s' % (
                              label, (bad3[0].what or bad3[0].cls) if bad3 else reach[k0][0].qualname,
                              ' -> '.join(q for q, _ in cg.path_to(reach, k0))),
                          facts={'path': cg.path_to(reach, k0)}, instance=label)
        else:
            chk.ok(E3, label, where)

    guarded_opens(prog, cg, eff, chk, E4, [d for label, defs, kind in obs for d in defs], consequence=(
        'attaching a file that does not exist creates it, so loading would modify the library directory',
        'sqlite opens with READWRITE|CREATE, so loading would create the file'))

    E6 = chk.rule('E6', 'no member function reached from an observer assigns to or moves from a data member of its '
                        'own object: the handle is the same after the observation', floor=100)
    handle_state_untouched(prog, cg, chk, E6, obs)
    for label, defs, kind in mut:
        es, reach = eff.transitive(defs)
        where = '%s:%s' % (program.rel(defs[0].file), defs[0].line)
        w = [e for e in es if e.cls in ('write', 'ddl', 'dynsql')]
        if w:
            chk.ok(E5, label, where, detail={'writes': len(w)})
        else:
            chk.unknown(E5, label, 'mutator shows no write effect: the call graph lost its '
                                   'implementation (analysis blind)')

    chk.extra['observers'] = len(obs)
    chk.extra['mutators'] = len(mut)
    chk.extra['distinct_read_statement_sites'] = len(n_read_sites)
    chk.extra['template_only_methods_not_analysed'] = [l for l, _ in skipped]
    if len(n_read_sites) < 60:
        chk.fail_broken('only %d read statement sites reachable from observers (floor 60)'
                        % len(n_read_sites))
    E7 = chk.rule('E7', 'releasing the handles of a library that was only observed changes nothing: no user-written destructor '
                        'of the repository (the transaction guard excepted) reaches a statement with an effect on the '
                        'database (PRAGMA optimize, VACUUM, a checkpoint, a clean-up DELETE) or a file-system write',
                  floor=1)
    from . import extra
    extra.destructors_silent(prog, cg, eff, chk, E7)
    return chk.finish(
        'effect analysis over the resolved call graph of all %d translation units: %d observing and '
        '%d mutating public operations classified from the headers; for each observer the set of SQL '
        'statements (parsed from the string literals) and file-system calls reachable through any '
        'overrider is computed and required to be read-only' % (chk.units, len(obs), len(mut)))
