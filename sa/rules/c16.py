"""C16  Observing a library never modifies it.

E1  transitive SQL / file-system effect of every observer is within {read, attach}
E2  no observer opens a transaction (constructs sqlite_transaction / BEGIN)
E3  no observer reaches directory creation, schema creation or a stream opened for writing
E4  every ATTACH reachable from an observer sits behind an existence test that throws
E5  classification is total and the analysis is not blind: every mutator has a write
    effect (positive control for the zero-expected rules)
"""
import json
import os
import re

from .. import program, callgraph, effects, sql
from ..frontend import AnalysisBroken, VERIF
from ..program import children, strip, walk, locstr
from ..report import Check

SPEC = os.path.join(VERIF, 'spec', 'observers.json')
TXN = 'djinterop::util::sqlite_transaction'


def api_surface(prog, spec=None):
    """-> (observers, mutators): lists of (label, [Function definitions], decl)"""
    spec = spec or json.load(open(SPEC))
    pats = [re.compile(p) for p in spec['mutator_patterns']]
    obs, mut, skipped = [], [], []
    for cls in spec['classes']:
        if cls not in prog.records:
            raise AnalysisBroken('public class %s not found' % cls)
        for m in effects.public_methods(prog, cls):
            name = m['name']
            label = '%s::%s %s' % (cls, name, m.get('type') or '')
            defs = prog.definitions_for(prog.records[cls].tu, m, cls + '::' + name)
            defs = [d for d in defs if not d.is_pattern and d.body is not None]
            if name in spec['not_database_operations']:
                kind = 'neutral'
            elif any(p.search(name) for p in pats):
                kind = 'mut'
            else:
                kind = 'obs'
            if (cls + '::' + name) in spec['free_observers']:
                kind = 'obs'
            if not defs:
                skipped.append((label, kind))
                continue
            (obs if kind in ('obs', 'neutral') else mut).append((label, defs, kind))
    for qn in spec['free_observers']:
        if any(l.startswith(qn + ' ') for l, _, _ in obs):
            continue
        defs = [f for f in prog.by_name(qn) if not f.is_pattern and f.body is not None]
        if not defs:
            raise AnalysisBroken('observer %s not found' % qn)
        for d in defs:
            obs.append(('%s %s' % (qn, d.type), [d], 'obs'))
    for qn in spec['free_mutators']:
        defs = [f for f in prog.by_name(qn) if not f.is_pattern and f.body is not None]
        if not defs:
            raise AnalysisBroken('mutator %s not found' % qn)
        for d in defs:
            mut.append(('%s %s' % (qn, d.type), [d], 'mut'))
    return obs, mut, skipped


def _guarded_by_exists(func, site):
    """True if an `if (!path_exists(..)) throw` (or equivalent: if-statement
    whose condition calls path_exists and whose then-branch throws) precedes
    the site among the statements of the function body."""
    body = func.body
    for st in children(body):
        if st.get('loc') and site.node.get('loc') and st['loc'][1] >= site.node['loc'][1]:
            break
        if st.get('kind') == 'IfStmt':
            c = children(st)
            cond, then = c[0], c[1]
            calls = [(x.get('referencedDecl') or {}).get('name') for x in walk(cond)
                     if x.get('kind') == 'DeclRefExpr']
            if 'path_exists' in calls and any(x.get('kind') == 'CXXThrowExpr' for x in walk(then)):
                return True
    return False


def run(tier='quick'):
    prog = program.load()
    cg = callgraph.get(prog)
    eff = effects.Effects(prog, cg)
    chk = Check('C16', tier)
    chk.units = len(prog.tus)
    spec = json.load(open(SPEC))
    allowed = set(spec['allowed_observer_effects'])
    E1 = chk.rule('E1', 'the transitive effect (over the resolved call graph, virtual calls to every '
                        'overrider) of every observing public operation contains only SELECT / read-only '
                        'PRAGMA statements and ATTACH of existing files', floor=130)
    E2 = chk.rule('E2', 'no observing operation constructs a sqlite_transaction or issues '
                        'BEGIN / COMMIT / ROLLBACK', floor=130)
    E3 = chk.rule('E3', 'no observing operation reaches create_dir, a schema creator\'s create(), '
                        'a stream opened for writing or a statement whose text is not a literal', floor=130)
    E4 = chk.rule('E4', 'every ATTACH reachable from an observing operation binds a path behind an '
                        'existence test that throws (loading never creates a database file in a '
                        'directory that has none)', floor=2)
    E5 = chk.rule('E5', 'positive control: every mutating public operation shows a write / ddl / '
                        'dynamic statement in its transitive effect (the effect analysis sees through '
                        'the same call graph the observers are judged on)', floor=100)
    chk.assume('a SELECT or a read-only PRAGMA fires no trigger and changes no content (SQLite)')
    chk.assume('opening a connection on an existing file and ATTACHing an existing file do not change '
               'its content')
    chk.note('not decided: a legacy directory that has m.db but no p.db gets an empty p.db created by '
             'ATTACH on load (not a well-formed library to begin with)')

    obs, mut, skipped = api_surface(prog, spec)
    creators = set()
    for f in prog.functions.values():
        if f.cls and '::schema::schema_' in (f.cls or '') and f.name in (
                'create', 'create_music_schema', 'create_performance_schema'):
            creators.add(f.key)

    attach_sites = {}
    n_read_sites = set()
    for label, defs, kind in obs:
        for d in defs:
            chk.analysed(d)
        es, reach = eff.transitive(defs)
        for k in reach:
            chk.analysed(reach[k][0])
        where = '%s:%s' % (program.rel(defs[0].file), defs[0].line)
        # E1
        bad = [e for e in es if e.cls in ('write', 'ddl', 'pragma')]
        if kind == 'neutral':
            bad = list(es)
        if bad:
            for e in bad[:5]:
                chk.violation(E1, '%s|%s %s' % (label.split(' ')[0], e.cls, e.table), where,
                              'observer %s reaches a %s statement on %s at %s via %s' % (
                                  label, e.cls, e.table, e.loc,
                                  ' -> '.join(q for q, _ in cg.path_to(reach, e.func.key))),
                              facts={'statement': e.stmt.text() if e.stmt is not None else None,
                                     'path': cg.path_to(reach, e.func.key)},
                              instance=label)
        else:
            chk.ok(E1, label, where, detail={'reachable_functions': len(reach),
                                             'read_statements': sum(1 for e in es if e.cls == 'read')})
        for e in es:
            if e.cls == 'read':
                n_read_sites.add(e.loc)
        # E2
        tx = [e for e in es if e.cls == 'txn']
        txc = [k for k in reach if reach[k][0].cls == TXN]
        if tx or txc:
            k0 = (tx[0].func.key if tx else txc[0])
            chk.violation(E2, '%s|transaction' % label.split(' ')[0], where,
                          'observer %s opens / ends a transaction via %s' % (
                              label, ' -> '.join(q for q, _ in cg.path_to(reach, k0))),
                          facts={'path': cg.path_to(reach, k0)}, instance=label)
        else:
            chk.ok(E2, label, where)
        # E3
        bad3 = [e for e in es if e.cls in ('fs', 'dynsql')]
        cr = [k for k in reach if k in creators or reach[k][0].qualname == 'djinterop::util::create_dir']
        if bad3 or cr:
            k0 = bad3[0].func.key if bad3 else cr[0]
            chk.violation(E3, '%s|%s' % (label.split(' ')[0], reach[k0][0].qualname), where,
                          'observer %s reaches %s via %s' % (
                              label, (bad3[0].what or bad3[0].cls) if bad3 else reach[k0][0].qualname,
                              ' -> '.join(q for q, _ in cg.path_to(reach, k0))),
                          facts={'path': cg.path_to(reach, k0)}, instance=label)
        else:
            chk.ok(E3, label, where)
        for e in es:
            if e.cls == 'attach':
                attach_sites[e.loc] = e

    for loc, e in sorted(attach_sites.items()):
        binds_path = len(e.site.binds) > 0
        if not binds_path:
            chk.violation(E4, '%s|attach literal' % e.func.qualname, loc,
                          'observer-reachable ATTACH of a literal target: %s' % e.stmt.text())
            continue
        if _guarded_by_exists(e.func, e.site):
            chk.ok(E4, '%s: %s' % (e.func.qualname, e.stmt.text()), loc)
        else:
            chk.violation(E4, '%s|attach unguarded' % e.func.qualname, loc,
                          'ATTACH in %s is not preceded by an existence test that throws: loading '
                          'would create the file' % e.func.qualname)

    for label, defs, kind in mut:
        es, reach = eff.transitive(defs)
        where = '%s:%s' % (program.rel(defs[0].file), defs[0].line)
        w = [e for e in es if e.cls in ('write', 'ddl', 'dynsql')]
        if w:
            chk.ok(E5, label, where, detail={'writes': len(w)})
        else:
            chk.unknown(E5, label, 'mutator shows no write effect: the call graph lost its '
                                   'implementation (analysis blind)')

    chk.extra['observers'] = len(obs)
    chk.extra['mutators'] = len(mut)
    chk.extra['distinct_read_statement_sites'] = len(n_read_sites)
    chk.extra['template_only_methods_not_analysed'] = [l for l, _ in skipped]
    if len(n_read_sites) < 60:
        chk.fail_broken('only %d read statement sites reachable from observers (floor 60)'
                        % len(n_read_sites))
    return chk.finish(
        'effect analysis over the resolved call graph of all %d translation units: %d observing and '
        '%d mutating public operations classified from the headers; for each observer the set of SQL '
        'statements (parsed from the string literals) and file-system calls reachable through any '
        'overrider is computed and required to be read-only' % (chk.units, len(obs), len(mut)))
