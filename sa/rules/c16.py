"""C16  Observing a library never modifies it.

E1  transitive SQL / file-system effect of every observer is within {read, attach}
E2  no observer opens a transaction (constructs sqlite_transaction / BEGIN)
E3  no observer reaches directory creation, schema creation or a stream opened for writing
E4  every ATTACH reachable from an observer sits behind an existence test that throws
E5  classification is total and the analysis is not blind: every mutator has a write
    effect (positive control for the zero-expected rules)
"""
import json
import os
import re

from .. import program, callgraph, effects, sql
from ..frontend import AnalysisBroken, VERIF
from ..program import children, strip, walk, locstr
from ..report import Check

SPEC = os.path.join(VERIF, 'spec', 'observers.json')
TXN = 'djinterop::util::sqlite_transaction'


def api_surface(prog, spec=None):
    """-> (observers, mutators): lists of (label, [Function definitions], decl)"""
    spec = spec or json.load(open(SPEC))
    pats = [re.compile(p) for p in spec['mutator_patterns']]
    obs, mut, skipped = [], [], []
    for cls in spec['classes']:
        if cls not in prog.records:
            raise AnalysisBroken('public class %s not found' % cls)
        for m in effects.public_methods(prog, cls):
            name = m['name']
            label = '%s::%s %s' % (cls, name, m.get('type') or '')
            defs = prog.definitions_for(prog.records[cls].tu, m, cls + '::' + name)
            defs = [d for d in defs if not d.is_pattern and d.body is not None]
            if name in spec['not_database_operations']:
                kind = 'neutral'
            elif any(p.search(name) for p in pats):
                kind = 'mut'
            else:
                kind = 'obs'
            if (cls + '::' + name) in spec['free_observers']:
                kind = 'obs'
            if not defs:
                skipped.append((label, kind))
                continue
            (obs if kind in ('obs', 'neutral') else mut).append((label, defs, kind))
    for qn in spec['free_observers']:
        if any(l.startswith(qn + ' ') for l, _, _ in obs):
            continue
        defs = [f for f in prog.by_name(qn) if not f.is_pattern and f.body is not None]
        if not defs:
            raise AnalysisBroken('observer %s not found' % qn)
        for d in defs:
            obs.append(('%s %s' % (qn, d.type), [d], 'obs'))
    for qn in spec['free_mutators']:
        defs = [f for f in prog.by_name(qn) if not f.is_pattern and f.body is not None]
        if not defs:
            raise AnalysisBroken('mutator %s not found' % qn)
        for d in defs:
            mut.append(('%s %s' % (qn, d.type), [d], 'mut'))
    return obs, mut, skipped


def _sym_path(prog, func, node, depth=0):
    """Symbolic value of a path expression: tuple of ('param', name) / literal string parts.
    Locals initialised once are followed; repository helpers that return an expression over
    their parameters (make_*_path) are inlined."""
    n = strip(node, explicit=True)
    k = n.get('kind')
    if k == 'StringLiteral':
        return (program.decode_string_literal(n.get('value')),)
    if k in ('CXXConstructExpr', 'CXXTemporaryObjectExpr', 'InitListExpr'):
        c = [x for x in children(n) if x.get('kind') != 'CXXDefaultArgExpr']
        if len(c) == 1:
            return _sym_path(prog, func, c[0], depth)
        return None
    if k == 'CXXMemberCallExpr':
        callee = strip(children(n)[0])
        if (callee.get('name') or '').startswith('operator') or callee.get('name') in ('c_str', 'string'):
            return _sym_path(prog, func, children(callee)[0], depth)
        return None
    if k == 'DeclRefExpr':
        ref = n.get('referencedDecl') or {}
        if ref.get('kind') == 'ParmVarDecl':
            return (('param', ref.get('name')),)
        for v in walk(func.body):
            if v.get('kind') == 'VarDecl' and v.get('id') == ref.get('id'):
                init = [x for x in children(v) if not x['kind'].endswith('Attr')]
                if init:
                    return _sym_path(prog, func, init[-1], depth)
        return None
    if k == 'CXXOperatorCallExpr':
        c = children(n)
        if (strip(c[0]).get('referencedDecl') or {}).get('name') == 'operator+':
            a, b = _sym_path(prog, func, c[1], depth), _sym_path(prog, func, c[2], depth)
            if a is None or b is None:
                return None
            return _join(a + b)
        return None
    if k == 'CallExpr' and depth < 3:
        d, qn, virt, recv = prog.resolve_callee(func.tu, n)
        defs = prog.definitions_for(func.tu, d, qn) if d is not None else []
        if len(defs) == 1 and defs[0].body is not None:
            g = defs[0]
            rets = [x for x in walk(g.body) if x.get('kind') == 'ReturnStmt']
            if len(rets) == 1 and children(rets[0]):
                inner = _sym_path(prog, g, children(rets[0])[0], depth + 1)
                if inner is None:
                    return None
                args = children(n)[1:]
                names = [p.get('name') for p in g.params]
                out = ()
                for part in inner:
                    if isinstance(part, tuple) and part[0] == 'param' and part[1] in names:
                        sub = _sym_path(prog, func, args[names.index(part[1])], depth)
                        if sub is None:
                            return None
                        out += sub
                    else:
                        out += (part,)
                return _join(out)
        nm = (strip(children(n)[0]).get('referencedDecl') or {}).get('name')
        if nm in ('move', 'forward') and len(children(n)) == 2:
            return _sym_path(prog, func, children(n)[1], depth)
    return None


def _join(parts):
    out = []
    for p in parts:
        if isinstance(p, str) and out and isinstance(out[-1], str):
            out[-1] += p
        else:
            out.append(p)
    return tuple(out)


def _show_path(sp):
    if sp is None:
        return '<unknown>'
    return ' + '.join(repr(p) if isinstance(p, str) else p[1] for p in sp)


_EXIST_FUNCS = {}


def _is_existence_test(prog, func, call):
    """The callee is a file-existence test: a library function of that meaning, or a repository
    function whose body calls stat / access / std::filesystem::exists and returns bool."""
    d, qn, virt, recv = prog.resolve_callee(func.tu, call)
    name = (strip(children(call)[0]).get('referencedDecl') or {}).get('name') or ''
    if d is None:
        return name in ('exists', 'is_regular_file', 'access', 'stat')
    if qn in _EXIST_FUNCS:
        return _EXIST_FUNCS[qn]
    defs = prog.definitions_for(func.tu, d, qn)
    ok = False
    for g in defs:
        if g.body is None or 'bool' not in (g.ret or ''):
            continue
        for x in walk(g.body):
            if x.get('kind') == 'CallExpr':
                nm = (strip(children(x)[0]).get('referencedDecl') or {}).get('name')
                if nm in ('stat', '_stat', 'access', '_access', 'exists', 'is_regular_file', 'PathFileExistsA'):
                    ok = True
    _EXIST_FUNCS[qn] = ok
    return ok


def _existence_guards(prog, func, before_node):
    """Symbolic paths P for which `if (... !path_exists(P) ...) throw` precedes before_node
    among the statements of the function body (all disjuncts of an || condition count)."""
    out = []
    for st in children(func.body):
        if st.get('loc') and before_node.get('loc') and st['loc'][1] >= before_node['loc'][1]:
            break
        if st.get('kind') != 'IfStmt':
            continue
        c = children(st)
        cond, then = c[0], c[1]
        if not any(x.get('kind') == 'CXXThrowExpr' for x in walk(then)):
            continue
        for x in walk(cond):
            if x.get('kind') == 'UnaryOperator' and x.get('opcode') == '!':
                inner = strip(children(x)[0], explicit=True)
                if inner.get('kind') == 'CallExpr' and len(children(inner)) > 1 and \
                        _is_existence_test(prog, func, inner):
                    out.append(_sym_path(prog, func, children(inner)[1]))
    return out


def _open_sites(prog, cg, reach):
    """Connection-opening constructs in reachable functions: sqlite::database{path}."""
    out = []
    for key, (f, _, _) in reach.items():
        if f.body is None or f.is_pattern:
            continue
        for n in walk(f.body):
            if n.get('kind') in ('CXXConstructExpr', 'CXXTemporaryObjectExpr') and \
                    'sqlite::database' in (n.get('type') or '') and 'binder' not in (n.get('type') or ''):
                args = [a for a in children(n) if a.get('kind') != 'CXXDefaultArgExpr']
                if len(args) != 1:
                    continue
                at = strip(args[0]).get('type') or ''
                if 'sqlite::database' in at:
                    continue    # copy / move of a handle
                out.append((f, n, args[0]))
    return out


def guarded_opens(prog, cg, eff, chk, rid, roots):
    """Every ATTACH / sqlite::database{path} open reachable from `roots` sits behind an existence
    test of the very path it opens (symbolic path equality).  Shared with C13: a loader that probes
    one path and opens another both misreports what is there and creates the file it opens."""
    es, reach = eff.transitive(roots)
    n = 0
    for e in es:
        if e.cls != 'attach':
            continue
        n += 1
        loc = e.loc
        if not e.site.binds:
            chk.violation(rid, '%s|attach literal' % e.func.qualname, loc,
                          'ATTACH of a literal target on a load path: %s' % e.stmt.text())
            continue
        sp = _sym_path(prog, e.func, e.site.binds[0])
        guards = _existence_guards(prog, e.func, e.site.node)
        inst = '%s: %s of %s' % (e.func.qualname, e.stmt.text(), _show_path(sp))
        if sp is not None and sp in guards:
            chk.ok(rid, inst + ' behind an existence test of the same path', loc)
        else:
            chk.violation(rid, '%s|attach %s' % (e.func.qualname.split('::')[-1], _show_path(sp)), loc,
                          '%s: the existence test before it probes %s, not this path: what the loader reports '
                          'as present is not what it opens (and attaching a missing file creates it)' % (
                              inst, [_show_path(g) for g in guards]))
    for f, node, arg in _open_sites(prog, cg, reach):
        sp = _sym_path(prog, f, arg)
        loc = locstr(node)
        inst = '%s opens sqlite::database{%s}' % (f.qualname, _show_path(sp))
        n += 1
        if sp == (':memory:',):
            chk.ok(rid, inst + ' (in-memory)', loc)
            continue
        guards = _existence_guards(prog, f, node)
        if sp is not None and sp in guards:
            chk.ok(rid, inst + ' behind an existence test of the same path', loc)
        else:
            chk.violation(rid, '%s|open %s' % (f.qualname.split('::')[-1], _show_path(sp)), loc,
                          '%s: the existence test before it probes %s, not this path: a directory without that '
                          'file is reported as a library (and the open creates the file)' % (
                              inst, [_show_path(g) for g in guards]))
    return n


def handle_state_untouched(prog, cg, chk, E6, obs):
    """Observing twice gives the same answer only if the first observation leaves the handle as it
    was: no member function of the library reached from an observer assigns to, or moves from, a
    data member of its own object (constructors, destructors and assignment operators excepted: they
    build the objects that are returned)."""
    seen = set()
    n = 0
    for label, defs, kind in obs:
        reach = cg.reachable(defs)
        for k, (g, _, _) in reach.items():
            if k in seen or g.body is None or g.cls is None or not prog.in_repo(g.file):
                continue
            seen.add(k)
            if g.kind in ('CXXConstructorDecl', 'CXXDestructorDecl') or g.name.startswith('operator'):
                continue
            if g.cls == TXN or '(lambda' in (g.qualname or ''):
                continue
            n += 1
            bad = None

            def is_own_member(e):
                e = strip(e, explicit=True)
                if e.get('kind') != 'MemberExpr':
                    return False
                c = children(e)
                b = strip(c[0], explicit=True) if c else {}
                return b.get('kind') == 'CXXThisExpr' or not c
            for x in walk(g.body):
                kk = x.get('kind')
                if kk == 'CallExpr' and (strip(children(x)[0]).get('referencedDecl') or {}).get('name') == 'move' \
                        and len(children(x)) > 1 and is_own_member(children(x)[1]):
                    bad = ('moves from its member %s' % strip(children(x)[1], explicit=True).get('name'), x)
                elif kk in ('BinaryOperator', 'CompoundAssignOperator') and (x.get('opcode') or '').endswith('=') \
                        and x.get('opcode') not in ('==', '!=', '<=', '>=') and is_own_member(children(x)[0]):
                    bad = ('assigns its member %s' % strip(children(x)[0], explicit=True).get('name'), x)
                elif kk == 'CXXOperatorCallExpr' and len(children(x)) > 2 and \
                        (strip(children(x)[0]).get('referencedDecl') or {}).get('name') == 'operator=' \
                        and is_own_member(children(x)[1]):
                    bad = ('assigns its member %s' % strip(children(x)[1], explicit=True).get('name'), x)
                if bad:
                    break
            short = '::'.join((g.qualname or '').split('::')[-2:])
            if bad:
                chk.violation(E6, '%s|%s' % (short, bad[0]), locstr(bad[1]),
                              '%s, reached from observer %s, %s: the handle is not the same after the observation, '
                              'so a repeated observation answers differently (or dereferences a moved-from pointer)'
                              % (short, label, bad[0]))
            else:
                chk.ok(E6, '%s leaves the members of its object untouched' % short, locstr(g.node))
    return n


def run(tier='quick'):
    prog = program.load()
    cg = callgraph.get(prog)
    eff = effects.Effects(prog, cg)
    chk = Check('C16', tier)
    chk.units = len(prog.tus)
    spec = json.load(open(SPEC))
    allowed = set(spec['allowed_observer_effects'])
    E1 = chk.rule('E1', 'the transitive effect (over the resolved call graph, virtual calls to every '
                        'overrider) of every observing public operation contains only SELECT / read-only '
                        'PRAGMA statements and ATTACH of existing files', floor=130)
    E2 = chk.rule('E2', 'no observing operation constructs a sqlite_transaction or issues '
                        'BEGIN / COMMIT / ROLLBACK', floor=130)
    E3 = chk.rule('E3', 'no observing operation reaches create_dir, a schema creator\'s create(), '
                        'a stream opened for writing or a statement whose text is not a literal', floor=130)
    E4 = chk.rule('E4', 'every ATTACH and every sqlite::database{path} open reachable from an observing '
                        'operation is preceded by `if (!path_exists(P)) throw` on the very same symbolic '
                        'path (loading never creates a database file that is missing)', floor=4)
    E5 = chk.rule('E5', 'positive control: every mutating public operation shows a write / ddl / '
                        'dynamic statement in its transitive effect (the effect analysis sees through '
                        'the same call graph the observers are judged on)', floor=100)
    chk.assume('a SELECT or a read-only PRAGMA fires no trigger and changes no content (SQLite)')
    chk.assume('opening a connection on an existing file and ATTACHing an existing file do not change '
               'its content')
    chk.note('E4 compares symbolic path values (parameter + literal parts, helpers inlined), so a guard '
             'on the directory does not discharge an open of a file inside it')

    obs, mut, skipped = api_surface(prog, spec)
    creators = set()
    for f in prog.functions.values():
        if f.cls and '::schema::schema_' in (f.cls or '') and f.name in (
                'create', 'create_music_schema', 'create_performance_schema'):
            creators.add(f.key)

    attach_sites = {}
    n_read_sites = set()
    for label, defs, kind in obs:
        for d in defs:
            chk.analysed(d)
        es, reach = eff.transitive(defs)
        for k in reach:
            chk.analysed(reach[k][0])
        where = '%s:%s' % (program.rel(defs[0].file), defs[0].line)
        # E1
        bad = [e for e in es if e.cls in ('write', 'ddl', 'pragma')]
        if kind == 'neutral':
            bad = list(es)
        if bad:
            for e in bad[:5]:
                chk.violation(E1, '%s|%s %s' % (label.split(' ')[0], e.cls, e.table), where,
                              'observer %s reaches a %s statement on %s at %s via %s' % (
                                  label, e.cls, e.table, e.loc,
                                  ' -> '.join(q for q, _ in cg.path_to(reach, e.func.key))),
                              facts={'statement': e.stmt.text() if e.stmt is not None else None,
                                     'path': cg.path_to(reach, e.func.key)},
                              instance=label)
        else:
            chk.ok(E1, label, where, detail={'reachable_functions': len(reach),
                                             'read_statements': sum(1 for e in es if e.cls == 'read')})
        for e in es:
            if e.cls == 'read':
                n_read_sites.add(e.loc)
        # E2
        tx = [e for e in es if e.cls == 'txn']
        txc = [k for k in reach if reach[k][0].cls == TXN]
        if tx or txc:
            k0 = (tx[0].func.key if tx else txc[0])
            chk.violation(E2, '%s|transaction' % label.split(' ')[0], where,
                          'observer %s opens / ends a transaction via %s' % (
                              label, ' -> '.join(q for q, _ in cg.path_to(reach, k0))),
                          facts={'path': cg.path_to(reach, k0)}, instance=label)
        else:
            chk.ok(E2, label, where)
        # E3
        bad3 = [e for e in es if e.cls in ('fs', 'dynsql')]
        cr = [k for k in reach if k in creators or reach[k][0].qualname == 'djinterop::util::create_dir']
        if bad3 or cr:
            k0 = bad3[0].func.key if bad3 else cr[0]
            chk.violation(E3, '%s|%s' % (label.split(' ')[0], reach[k0][0].qualname), where,
                          'observer %s reaches %s via %s' % (
                              label, (bad3[0].what or bad3[0].cls) if bad3 else reach[k0][0].qualname,
                              ' -> '.join(q for q, _ in cg.path_to(reach, k0))),
                          facts={'path': cg.path_to(reach, k0)}, instance=label)
        else:
            chk.ok(E3, label, where)
        for e in es:
            if e.cls == 'attach':
                attach_sites[e.loc] = e

    for loc, e in sorted(attach_sites.items()):
        if not e.site.binds:
            chk.violation(E4, '%s|attach literal' % e.func.qualname, loc,
                          'observer-reachable ATTACH of a literal target: %s' % e.stmt.text())
            continue
        sp = _sym_path(prog, e.func, e.site.binds[0])
        guards = _existence_guards(prog, e.func, e.site.node)
        inst = '%s: %s of %s' % (e.func.qualname, e.stmt.text(), _show_path(sp))
        if sp is not None and sp in guards:
            chk.ok(E4, inst + ' behind an existence test of the same path', loc)
        else:
            chk.violation(E4, '%s|attach %s' % (e.func.qualname.split('::')[-1], _show_path(sp)), loc,
                          '%s: no preceding `if (!path_exists(P)) throw` tests this very path (tested: %s); '
                          'attaching a file that does not exist creates it, so loading would modify the '
                          'library directory' % (inst, [_show_path(g) for g in guards]))
    all_reach = {}
    for label, defs, kind in obs:
        all_reach.update(cg.reachable(defs))
    for f, n, arg in _open_sites(prog, cg, all_reach):
        sp = _sym_path(prog, f, arg)
        loc = locstr(n)
        inst = '%s opens sqlite::database{%s}' % (f.qualname, _show_path(sp))
        if sp == (':memory:',):
            chk.ok(E4, inst + ' (in-memory)', loc)
            continue
        guards = _existence_guards(prog, f, n)
        if sp is not None and sp in guards:
            chk.ok(E4, inst + ' behind an existence test of the same path', loc)
        else:
            chk.violation(E4, '%s|open %s' % (f.qualname.split('::')[-1], _show_path(sp)), loc,
                          '%s: no preceding `if (!path_exists(P)) throw` tests this very path (tested: %s); '
                          'sqlite opens with READWRITE|CREATE, so loading would create the file' % (
                              inst, [_show_path(g) for g in guards]))

    E6 = chk.rule('E6', 'no member function reached from an observer assigns to or moves from a data member of its '
                        'own object: the handle is the same after the observation', floor=100)
    handle_state_untouched(prog, cg, chk, E6, obs)
    for label, defs, kind in mut:
        es, reach = eff.transitive(defs)
        where = '%s:%s' % (program.rel(defs[0].file), defs[0].line)
        w = [e for e in es if e.cls in ('write', 'ddl', 'dynsql')]
        if w:
            chk.ok(E5, label, where, detail={'writes': len(w)})
        else:
            chk.unknown(E5, label, 'mutator shows no write effect: the call graph lost its '
                                   'implementation (analysis blind)')

    chk.extra['observers'] = len(obs)
    chk.extra['mutators'] = len(mut)
    chk.extra['distinct_read_statement_sites'] = len(n_read_sites)
    chk.extra['template_only_methods_not_analysed'] = [l for l, _ in skipped]
    if len(n_read_sites) < 60:
        chk.fail_broken('only %d read statement sites reachable from observers (floor 60)'
                        % len(n_read_sites))
    return chk.finish(
        'effect analysis over the resolved call graph of all %d translation units: %d observing and '
        '%d mutating public operations classified from the headers; for each observer the set of SQL '
        'statements (parsed from the string literals) and file-system calls reachable through any '
        'overrider is computed and required to be read-only' % (chk.units, len(obs), len(mut)))
