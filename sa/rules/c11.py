"""C11  The stored database stays a well-formed Engine library (co-update clauses).

W1  the redundant 1.x crate encodings (Crate.path, CrateParentList, CrateHierarchy) are written
    together by every operation that changes the forest, with the right roles
W2  derived track columns: whoever writes Track.path also writes the file name and the
    extension / file type from the same value
W3  blob column <-> codec class agreement (rule R5 of C01)
W4  referential cleanup on delete (rule K2 of C08)
W5  the origin fix-up triggers exist in every 2.x DDL
W6  the database uuid stored with a playlist entity is read from Information.uuid
"""
import re

from .. import program, callgraph, effects, rowmap, rowrules, valueflow as vf, fieldmodel as fm
from ..frontend import AnalysisBroken
from ..program import children, strip, walk, locstr
from ..report import Check
from . import c01, c08, c18
from .c07 import evaluate, _short, _is_handle_id

V1 = 'djinterop::engine::v1::'
V2 = 'djinterop::engine::v2::'


def _path_chain(prog, cg, eff, chk, W1, entry, rewriters, label):
    """Crate.path(child) = Crate.path(parent) + title(child) + ';'.  The subtree rewriter receives the
    parent's path as an argument; every call to it - from the operation and from itself - must
    hand down a value its caller has just stored in Crate.path, not the path the caller received."""
    ip = vf.Interp(prog, cg, eff)
    ip.run(entry)
    names = {g.qualname for g in rewriters}
    pw = [w for w in ip.writes if (w.table or '').lower() == 'crate' and w.column == 'path' and w.kind == 'update']
    calls = [c for c in ip.calls if c[1] in names]
    if not calls or not pw:
        chk.unknown(W1, label + ' path chain', 'no call of the subtree rewriter or no Crate.path write was evaluated')
        return
    seen = set()
    for (seq, callee, args, node, caller) in calls:
        # the path most recently stored before the call - by the calling function itself or by a helper it
        # stores the path through; not the path an enclosing caller stored earlier
        own = [w for w in pw if w.seq < seq][-1:]
        key = (caller.qualname, locstr(node))
        if key in seen:
            continue
        seen.add(key)
        inst = '%s: %s hands the path it stored (%s) down to %s at %s' % (
            label, _short(caller.qualname), own[-1].loc if own else '?', _short(callee), locstr(node))
        # the crate that receives "parent path + own title" must be an immediate child of the crate
        # whose path is handed down: it is taken from the parent relation, not from the closure
        rel = set()
        for a in args:
            for x in vf.leaves(a):
                if x[0] == 'loc' and (x[1] or '').lower() in ('crateparentlist', 'cratehierarchy',
                                                                'listparentlist', 'listhierarchy'):
                    rel.add((x[1] or '').lower())
        closure = {t for t in rel if 'hierarchy' in t}
        if closure:
            chk.violation(W1, '%s|%s->%s walks the closure' % (label, _short(caller.qualname), _short(callee)),
                          locstr(node),
                          '%s: the crate passed with that path is read from %s (all descendants), not from the '
                          'immediate-parent relation: a crate two levels below gets "<this path><its title>;" and '
                          'loses the levels in between, so Crate.path disagrees with CrateParentList / CrateHierarchy'
                          % (inst, ', '.join(sorted(closure))))
        elif own and any(a is w.value or (a == w.value and a[0] != 'unk') for a in args for w in own):
            chk.ok(W1, inst, locstr(node))
        else:
            chk.violation(W1, '%s|%s->%s path argument' % (label, _short(caller.qualname), _short(callee)), locstr(node),
                          '%s: none of the arguments is the value %s stored in Crate.path before the call (arguments: %s): '
                          'the sub-crates below get a path that does not continue their parent\'s path, so Crate.path '
                          'disagrees with CrateParentList / CrateHierarchy' % (
                              inst, _short(caller.qualname), ', '.join(vf.shape(a)[:50] for a in args)))


def padded_fields(prog, chk, W12):
    n = 0
    # the 1.x track writers, and the integer -> string formatting helpers they reach wherever those are defined
    # (the MM:SS formatting shared by two writers may live in a utility header)
    from .. import callgraph as _cgm
    cg = _cgm.get(prog)
    own = [f for f in prog.functions.values()
           if f.body is not None and not f.is_pattern and 'v1/engine_track_impl' in (f.file or '')]
    cands = {f.key: f for f in own}
    for key, (g, _p, _n) in cg.reachable(own, stop=lambda x: not prog.in_repo(x.file)).items():
        if g.body is None or g.is_pattern or not prog.in_repo(g.file) or key in cands:
            continue
        if 'string' in (g.ret or '') and g.params and \
                all(re.search(r'\b(int|long|int64_t|int32_t|unsigned|size_t)\b', p.get('type') or '') for p in g.params):
            cands[key] = g
    for f in sorted(cands.values(), key=lambda x: (x.file or '', x.line)):
        # the same string written with a printf-style format: every integer conversion carries the 02 width
        for x in walk(f.body):
            if x.get('kind') == 'StringLiteral' and ':' in (x.get('value') or '') and '%' in (x.get('value') or ''):
                fmt = program.decode_string_literal(x.get('value'))
                convs = re.findall(r'%([-+ 0#]*)(\d*)(?:l|ll|h|hh|j|z|t)?([diu])', fmt)
                for flags, width, _c in convs:
                    n += 1
                    chk.analysed(f)
                    inst = '%s: integer conversion in the MM:SS format %r' % (f.qualname.replace('djinterop::engine::', ''), fmt)
                    if '0' in flags and width == '2':
                        chk.ok(W12, inst + ' is %02', locstr(x))
                    else:
                        chk.violation(W12, '%s|unpadded number in MM:SS' % f.qualname.replace('djinterop::engine::', ''),
                                      locstr(x), inst + ' is not zero-padded to two digits')
        streams = {d['id'] for d in walk(f.body) if d.get('kind') == 'VarDecl' and 'ostringstream' in (d.get('type') or '')}
        if not streams:
            continue
        # insertions in evaluation order: a chain `oss << a << b` is a left-nested operator<< tree
        def chain(n_):
            n_ = strip(n_)
            if n_.get('kind') == 'CXXOperatorCallExpr' and \
                    (strip(children(n_)[0]).get('referencedDecl') or {}).get('name') == 'operator<<' and len(children(n_)) == 3:
                base, items = chain(children(n_)[1])
                return base, items + [children(n_)[2]]
            if n_.get('kind') == 'CXXMemberCallExpr' and strip(children(n_)[0]).get('name') == 'operator<<':
                callee = strip(children(n_)[0])
                base, items = chain(children(callee)[0])
                return base, items + children(n_)[1:]
            return n_, []
        per_stream = {}
        seen_nodes = set()
        for x in walk(f.body):
            if id(x) in seen_nodes:
                continue
            base, items = chain(x)
            if not items or base.get('kind') != 'DeclRefExpr' or (base.get('referencedDecl') or {}).get('id') not in streams:
                continue
            for y in walk(x):
                seen_nodes.add(id(y))
            per_stream.setdefault(base['referencedDecl']['id'], []).extend(items)
        for sid, items in per_stream.items():
            texts = [strip(i_, explicit=True) for i_ in items]
            if not any(t.get('kind') == 'StringLiteral' and ':' in (t.get('value') or '') for t in texts):
                continue        # not a MM:SS string
            width_pending = False
            for t, raw in zip(texts, items):
                ty = (t.get('type') or '')
                is_manip = t.get('kind') == 'CallExpr' and \
                    (strip(children(t)[0]).get('referencedDecl') or {}).get('name') in ('setw', 'setfill')
                if is_manip:
                    if (strip(children(t)[0]).get('referencedDecl') or {}).get('name') == 'setw':
                        width_pending = True
                    continue
                if t.get('kind') == 'StringLiteral' or 'char' in ty:
                    width_pending = False       # a literal consumes the width as well
                    continue
                if any(k_ in ty for k_ in ('long', 'int')):
                    n += 1
                    chk.analysed(f)
                    inst = '%s: number inserted into the MM:SS stream at %s' % (
                        f.qualname.replace('djinterop::engine::', ''), locstr(raw))
                    if width_pending:
                        chk.ok(W12, inst + ' has its own setw', locstr(raw))
                    else:
                        chk.violation(W12, '%s|unpadded number in MM:SS' % f.qualname.replace('djinterop::engine::', ''),
                                      locstr(raw), inst + ' has no setw of its own: 65 s is written "01:5" where the other '
                                      'writer of the same meta-data row writes "01:05"')
                    width_pending = False
    if n < 2:
        # two writers with two numbers each today; a shared formatting helper leaves one stream with two
        raise AnalysisBroken('W12: no MM:SS stream with two numbers found (%d)' % n)


class _Stmt:
    """One executed write statement of an operation, callees inlined: the column each bound value is assigned
    to / compared with / selected beside, as value-flow terms."""
    __slots__ = ('kind', 'table', 'cols', 'wheres', 'sel', 'loc', 'seq', 'func')

    def __init__(self, kind, table, loc, seq, func):
        self.kind, self.table, self.loc, self.seq, self.func = kind, table, loc, seq, func
        self.cols, self.wheres, self.sel = {}, {}, []

    def roles(self):
        return [(c, vf.shape(v)[:40], 'value') for c, v in sorted(self.cols.items())] + \
               [(c, vf.shape(v)[:40], 'where') for c, v in sorted(self.wheres.items())] + \
               [(None, vf.shape(v)[:40], 'select') for v in self.sel]


def _val(t):
    """The value a term denotes: the result of an inlined repository call stands for the call."""
    while t is not None and t[0] in ('call', 'callm') and len(t) > 3 and t[3] is not None:
        t = t[3]
    return t


def _self(t):
    return _val(t) == ('id',)


def _same(a, b):
    a, b = _val(a), _val(b)
    return a is not None and a == b and a[0] != 'unk'


def _statements(prog, cg, eff, f):
    """Write statements the operation executes, in order, wherever they are written: in the function itself, in
    a helper it shares with a sibling operation (arguments substituted for the helper's parameters), through a
    named SQL constant; locals and aliases are resolved by the value flow."""
    ip = vf.Interp(prog, cg, eff)
    ip.run(f)
    out, cur = [], {}
    for w in ip.writes:
        key = (w.seq, w.loc)
        st = cur.get(key)
        if st is None:
            kind = 'insert' if w.kind.startswith('insert') else w.kind
            st = cur[key] = _Stmt(kind, (w.table or '').lower(), w.loc, w.seq, w.func)
            out.append(st)
        if w.kind == 'insert-select':
            site = [s_ for s_ in eff.sites(w.func) if locstr(s_.node) == w.loc]
            parsed = site[0].stored_in if site else None
            binds = w.value[2] if w.value and w.value[0] == 'op' else ()
            if parsed is None or len(parsed.params) != len(binds):
                raise AnalysisBroken('INSERT .. SELECT at %s: placeholders and bound values could not be paired' % w.loc)
            for p_, b in zip(parsed.params, binds):
                c = (p_.column or '').lower()
                if p_.role in ('value', 'set'):
                    st.cols[c] = b
                elif p_.role == 'where':
                    st.wheres[c] = b
                elif p_.role == 'select':
                    st.sel.append(b)
            continue
        if w.kind in ('insert', 'update'):
            st.cols[(w.column or '').lower()] = w.value
        for c, v in (w.where or {}).items():
            st.wheres[c.lower()] = v
    return ip, out


def forest_encodings(prog, cg, eff, chk, W1, only=None, paths=True):
    # ---- W1 ------------------------------------------------------------------------------
    ops = [
        (V1 + 'engine_database_impl::create_root_crate', 'root'),
        (V1 + 'engine_crate_impl::create_sub_crate', 'sub'),
        (V1 + 'engine_crate_impl::set_parent', 'move'),
        (V1 + 'engine_crate_impl::set_name', 'rename'),
    ]
    for qn, op in ops:
        if only is not None and op not in only:
            continue
        fs = [g for g in prog.by_name(qn) if g.body is not None and not g.is_pattern]
        if not fs:
            raise AnalysisBroken('anchor function %s not found' % qn)
        f = fs[0]
        chk.analysed(f)
        _ip, stmts = _statements(prog, cg, eff, f)
        by = {}
        for sm in stmts:
            by.setdefault((sm.kind, sm.table), []).append(sm)

        def need(kind, table, what, pred=None):
            cands = by.get((kind, table), [])
            good = [sm for sm in cands if pred is None or pred(sm)]
            inst = '%s: %s' % (_short(qn), what)
            if good:
                chk.ok(W1, inst, good[0].loc)
            else:
                chk.violation(W1, '%s|%s' % (_short(qn), what[:60]), cands[0].loc if cands else locstr(f.node),
                              '%s: not found%s - the redundant encodings of the crate forest no longer '
                              'describe the same forest' % (inst, ' (a %s on %s exists but with other roles: %s)' % (
                                  kind, table, cands[0].roles()) if cands else ''))

        def cols(sm):
            return sm.cols

        def wheres(sm):
            return sm.wheres
        if op in ('root', 'sub'):
            need('insert', 'crate', 'INSERT into Crate with title and path',
                 lambda sm: {'title', 'path'} <= set(cols(sm)))
            need('insert', 'crateparentlist', 'INSERT into CrateParentList (origin = new crate, parent = %s)' % (
                'this crate' if op == 'sub' else 'the new crate itself'),
                lambda sm: 'crateoriginid' in cols(sm) and 'crateparentid' in cols(sm) and (
                    (_self(cols(sm)['crateparentid']) and not _self(cols(sm)['crateoriginid'])) if op == 'sub'
                    else _same(cols(sm)['crateparentid'], cols(sm)['crateoriginid'])))
        if op in ('sub', 'move'):
            def hier_ok(sm, op=op):
                c, w = cols(sm), wheres(sm)
                if 'crateidchild' not in c:
                    return False
                new = c['crateidchild']
                par = w.get('crateidchild')
                if par is None:
                    return False           # ancestors must be looked up by crateIdChild = parent
                sel_ok = len(sm.sel) == 2 and _same(sm.sel[0], par) and _same(sm.sel[1], new)
                if op == 'sub':
                    return _self(par) and not _self(new) and sel_ok
                return _self(new) and not _self(par) and sel_ok
            need('insert', 'cratehierarchy', 'INSERT into CrateHierarchy of (ancestors of the parent, found by '
                 'crateIdChild = parent) x crate, plus (parent, crate)', hier_ok)
        if op == 'move':
            need('delete', 'crateparentlist', 'DELETE of the old CrateParentList row (crateOriginId = id())',
                 lambda sm: _self(wheres(sm).get('crateoriginid')))
            need('insert', 'crateparentlist', 'INSERT of the new CrateParentList row (origin = id())',
                 lambda sm: _self(cols(sm).get('crateoriginid')))
            need('delete', 'cratehierarchy', 'DELETE of the old CrateHierarchy rows (crateIdChild = id())',
                 lambda sm: _self(wheres(sm).get('crateidchild')))
        if paths and op in ('rename', 'move'):
            # Crate.path of the crate itself and of its subtree
            upd = by.get(('update', 'crate'), [])
            reach = cg.reachable([f])
            # a function reached from here (not this one) that UPDATEs Crate.path and walks children():
            # the subtree rewrite, whatever it is called
            sub = []
            for k, (g, _, _) in reach.items():
                if g is f or g.body is None:
                    continue
                writes_path = any(s_.stored_in is not None and s_.stored_in.kind == 'update' and
                                  (s_.stored_in.table or '').lower() == 'crate' and
                                  any(c.lower() == 'path' for c, _ in s_.stored_in.sets) for s_ in eff.sites(g))
                walks = any((e.name or '').endswith('::children') for e in cg.edges(g))
                if writes_path and walks:
                    sub.append(k)
            own = [sm for sm in upd if 'path' in cols(sm) and _self(wheres(sm).get('id'))]
            inst = '%s: Crate.path rewritten for the crate (UPDATE .. WHERE id = id()) and for its subtree (a reached function that updates Crate.path along children())' % _short(qn)
            if (own or op == 'move' and sub) and sub:
                chk.ok(W1, inst, (own[0].loc if own else locstr(f.node)))
                _path_chain(prog, cg, eff, chk, W1, f, [reach[k][0] for k in sub], _short(qn))
            else:
                chk.violation(W1, '%s|paths not rewritten' % _short(qn), locstr(f.node),
                              '%s: %s%s - Crate.path keeps spelling the old position while CrateParentList / '
                              'CrateHierarchy describe the new one' % (
                                  inst, '' if own or op == 'move' else 'no UPDATE of the crate\'s own path; ',
                                  '' if sub else 'no function that rewrites Crate.path along children() is reached, so the paths of the crate and its '
                                  'sub-crates are not rewritten'))


def _suffix_helpers(prog, cg, chk, W2, roots):
    """File name and extension are the parts of the path after its LAST '/' and LAST '.'.  The
    helpers the path writers derive them with (util functions string -> string / optional<string>
    that cut with substr) must locate the separator searching from the end."""
    reach = cg.reachable(roots)
    n = 0
    for k, (g, _, _) in sorted(reach.items(), key=lambda kv: str(kv[0])):
        if g.body is None or not (g.qualname or '').startswith('djinterop::util::') or len(g.params) != 1:
            continue
        if 'string' not in (g.params[0].get('type') or '') or 'string' not in (g.ret or ''):
            continue
        cuts = [x for x in walk(g.body) if x.get('kind') == 'CXXMemberCallExpr'
                and strip(children(x)[0]).get('name') == 'substr']
        if not cuts:
            continue
        searches = [(strip(children(x)[0]).get('name'), x) for x in walk(g.body)
                    if x.get('kind') == 'CXXMemberCallExpr'
                    and (strip(children(x)[0]).get('name') or '') in (
                        'find', 'rfind', 'find_first_of', 'find_last_of', 'find_first_not_of', 'find_last_not_of')]
        n += 1
        short = (g.qualname or '').replace('djinterop::', '')
        if not searches:
            chk.unknown(W2, short, 'cuts its argument with substr but no string search was recognised')
            continue
        bad = [(nm, x) for nm, x in searches if nm not in ('rfind', 'find_last_of')]
        # what is searched for: exactly one character ('/' for the file name, '.' for the extension);
        # a set of characters ("/\\") also cuts at a character that may occur inside a component
        seps = []
        for nm, x in searches:
            a = children(x)[1:]
            v = program.literal_value(strip(a[0], explicit=True)) if a else None
            if isinstance(v, int):
                v = chr(v)
            seps.append(v)
        multi = [(nm, v) for (nm, _), v in zip(searches, seps) if not isinstance(v, str) or len(v) != 1 or v not in '/.']
        inst = '%s locates the separator from the end (%s of %s)' % (
            short, ', '.join(nm for nm, _ in searches), ', '.join(repr(v) for v in seps))
        if not bad and multi:
            chk.violation(W2, '%s|separator set' % short, locstr(searches[0][1]),
                          '%s searches for %s: paths are stored with \'/\' between components and \'.\' before the '
                          'extension; any other or additional separator character cuts inside a component that '
                          'contains it, so the stored file name / extension disagree with the path' % (
                              short, ', '.join(repr(v) for _, v in multi)))
        elif not bad:
            chk.ok(W2, inst, locstr(g.node))
        else:
            chk.violation(W2, '%s|separator searched from the front' % short, locstr(bad[0][1]),
                          '%s uses %s: for a path with more than one separator the part after the FIRST one is '
                          'taken, so the stored file name / extension disagree with the track\'s path' % (
                              short, bad[0][0]))
    if n < 2:
        chk.fail_broken('W2: the file-name / extension helpers were not found among the callees of the path writers')
    _extension_of_file_name(prog, cg, chk, W2, reach)


def _extension_of_file_name(prog, cg, chk, W2, reach):
    """The extension is the part after the last '.' OF THE FILE NAME: a '.' in a directory name is no extension
    separator.  A helper that cuts at '.' therefore either cuts at '/' itself first (calls a '/'-cutting helper on
    its parameter, or searches for '/' as well), or every call of it passes a value that was cut at '/' - the result
    of a call (a '/'-cutting helper, an accessor of the stored file name), directly or through a local initialised
    from one; never a stored or given path as it is."""
    def searched(g):
        out = set()
        for x in walk(g.body):
            if x.get('kind') == 'CXXMemberCallExpr' and (strip(children(x)[0]).get('name') or '') in (
                    'find', 'rfind', 'find_first_of', 'find_last_of'):
                a = children(x)[1:]
                v = program.literal_value(strip(a[0], explicit=True)) if a else None
                if isinstance(v, int):
                    v = chr(v)
                if isinstance(v, str):
                    out.add(v)
        return out
    helpers = [g for k, (g, _, _) in reach.items() if g.body is not None and (g.qualname or '').startswith('djinterop::util::')
               and len(g.params) == 1 and 'string' in (g.params[0].get('type') or '')]
    slash = [g for g in helpers if '/' in searched(g)]
    dot = [g for g in helpers if '.' in searched(g) and '/' not in searched(g)]
    slash_names = {g.name for g in slash}
    for g in dot:
        short = (g.qualname or '').replace('djinterop::', '')
        calls_slash = any(x.get('kind') == 'CallExpr' and
                          (strip(children(x)[0]).get('referencedDecl') or {}).get('name') in slash_names for x in walk(g.body))
        if calls_slash:
            chk.ok(W2, '%s cuts at the last \'/\' before it looks for the last \'.\'' % short, locstr(g.node))
            continue
        bad = None
        nsites = 0
        for h in prog.functions.values():
            if h.body is None or h.is_pattern or not prog.in_repo(h.file) or '/src/' not in (h.file or ''):
                continue
            single = program.single_assignment_locals(h.node)
            for x in walk(h.body):
                if x.get('kind') != 'CallExpr' or (strip(children(x)[0]).get('referencedDecl') or {}).get('name') != g.name:
                    continue
                if len(children(x)) != 2:
                    continue
                nsites += 1
                a = strip(children(x)[1], explicit=True)
                while a.get('kind') in ('MaterializeTemporaryExpr', 'CXXBindTemporaryExpr', 'ExprWithCleanups',
                                        'CXXConstructExpr') and len(children(a)) == 1:
                    a = strip(children(a)[0], explicit=True)
                if a.get('kind') == 'DeclRefExpr' and (a.get('referencedDecl') or {}).get('id') in single:
                    a = strip(single[(a.get('referencedDecl') or {}).get('id')], explicit=True)
                    while a.get('kind') in ('MaterializeTemporaryExpr', 'CXXBindTemporaryExpr', 'ExprWithCleanups',
                                            'CXXConstructExpr') and len(children(a)) == 1:
                        a = strip(children(a)[0], explicit=True)
                if a.get('kind') not in ('CallExpr', 'CXXMemberCallExpr'):
                    bad = bad or (h, x)
        if bad:
            h, x = bad
            chk.violation(W2, '%s|extension taken from a path' % short, locstr(x),
                          '%s looks for the last \'.\' in its argument without cutting at \'/\' first, and %s passes it a path '
                          'as it is (not the result of a file-name cut): for an extension-less file below a directory with a '
                          'dot in its name, the text after that dot - directory separator included - is stored as the file '
                          'type' % (short, (h.qualname or '').replace('djinterop::engine::', '')))
        else:
            chk.ok(W2, '%s: all %d call(s) pass a value that was cut at the last \'/\'' % (short, nsites), locstr(g.node))


def _helper_statements(prog, cg, eff, cls, trace):
    """Statements a creator executes through helpers that are not virtual members of the creator object - a
    static member or free function that sibling creators share (the rows every new database starts out with,
    factored out of the per-version create() bodies).  The creation trace follows this-> calls (they depend on
    the dynamic class); any other repository callee of the functions on the trace is resolved statically, so
    its statements, and those of its callees, belong to the creator as well."""
    from .. import schemas
    funcs = {}
    f0 = schemas.final_overrider(prog, cls, 'create')
    if f0 is not None:
        funcs[f0.key] = f0
    for e in trace:
        funcs[e.func.key] = e.func
        for cf, _node in e.frames:
            funcs[cf.key] = cf
    out, seen = [], set(funcs)
    for g in list(funcs.values()):
        for edge in cg.edges(g):
            n = edge.node
            if n.get('kind') == 'CXXMemberCallExpr':
                callee = strip(children(n)[0])
                recv = strip(children(callee)[0]) if callee.get('kind') == 'MemberExpr' and children(callee) else None
                if recv is not None and recv.get('kind') == 'CXXThisExpr':
                    continue        # followed by the trace, with the dynamic class
            for t in edge.targets:
                if t.body is None or t.is_pattern or not prog.in_repo(t.file) or t.key in seen:
                    continue
                for key, (h, _p, _n) in cg.reachable([t], stop=lambda x: not prog.in_repo(x.file)).items():
                    if key in seen or h.body is None or h.is_pattern:
                        continue
                    seen.add(key)
                    for s_ in eff.sites(h):
                        if s_.stored_in is not None:
                            out.append(s_.stored_in)
    return out


def _default_rows(prog, cg, eff, chk, W9):
    """A constant the track writers store in a foreign-key column (the "no album art" id) names a row
    of the referenced table; every supported creator of the generation must insert that row, or
    PRAGMA foreign_key_check reports every created track."""
    from .. import schemas
    from . import c13
    order = rowrules.enum_order(prog)
    supported = [en for en in order if en in set(c13._supported(prog))]
    cats = rowrules.version_catalogs(prog)
    fmap = schemas.factory_map(prog)
    for gen in ('v1', 'v2'):
        vs = [en for en in supported if rowrules._gen2(en) == (gen == 'v2')]
        if not vs:
            continue
        # constants written into FK columns of Track by create_track / update
        M = fm.FieldModel(prog, cg, eff, assume_schema=order.index(vs[-1]), enum_order=order)
        consts = {}
        for which in ('create', 'update'):
            _, a, _ = M.w_of(gen, which)
            for w in a.writes:
                if (w.table or '').lower() != 'track':
                    continue
                v = vf._constval(w.value)
                if isinstance(v, int) and not isinstance(v, bool):
                    consts.setdefault(w.column, set()).add((v, w.loc))
        for en in vs:
            fks = {}
            for cat in cats[en].values():
                td = cat.tables.get('track')
                if td is None:
                    continue
                for c in td.columns:
                    if c.references:
                        fks[c.name.lower()] = (c.references[0], (c.references[1] or ['id'])[0])
                for cols, rt, rcols, _, _ in td.fks:
                    for a_, b_ in zip(cols, rcols or ['id']):
                        fks[a_.lower()] = (rt, b_)
            trace = schemas.creation_trace(prog, fmap[en])
            executed = [e.stmt for e in trace] + _helper_statements(prog, cg, eff, fmap[en], trace)
            for col, (rt, rc) in sorted(fks.items()):
                for (k, loc) in sorted(consts.get(col, ())):
                    rows = []
                    for st in executed:
                        if st.kind == 'insert' and (st.table or '').lower() == rt.lower() and st.rows:
                            names = [c.lower() for c in st.columns] if st.columns else None
                            for row in st.rows:
                                idx = names.index(rc.lower()) if names and rc.lower() in names else 0
                                if idx < len(row):
                                    rows.append(row[idx].literal())
                    inst = '%s: the creator inserts the %s row %s = %d that %s stores in Track.%s' % (
                        en, rt, rc, k, gen + ' create_track / update', col)
                    if k in rows:
                        chk.ok(W9, inst, en)
                    else:
                        chk.violation(W9, '%s|%s.%s = %d has no %s row' % (en, 'track', col, k, rt.lower()), loc,
                                      '%s: not found (rows inserted into %s by this creator: %s) - every track the '
                                      'library creates in such a library refers to a missing %s row, so PRAGMA '
                                      'foreign_key_check is not clean' % (inst, rt, rows or 'none', rt))


def run(tier='quick'):
    prog = program.load()
    cg = callgraph.get(prog)
    eff = effects.Effects(prog, cg)
    rowmap.install_program(prog)
    chk = Check('C11', tier)
    chk.units = len(prog.tus)
    W1 = chk.rule('W1', 'every 1.x operation that changes the crate forest writes all redundant encodings it '
                        'affects, with the right roles: parent-list row (origin = crate, parent = parent or self), '
                        'hierarchy rows (ancestors of the parent, looked up by crateIdChild = parent, plus the '
                        'parent itself), path strings of the crate and its subtree', floor=8)
    W2 = chk.rule('W2', 'every operation that writes Track.path also writes the file name and the extension / '
                        'file type from the same value (create, update, set_relative_path; both generations)', floor=6)
    W3 = chk.rule('W3', 'every blob column is encoded and decoded by one codec class', floor=10)
    W4 = chk.rule('W4', 'referential cleanup when a track or crate is deleted (all schema versions)', floor=4)
    W5 = chk.rule('W5', 'every 2.x DDL has the INSERT and UPDATE triggers on Track that fill originDatabaseUuid '
                        '/ originTrackId', floor=14)
    W6 = chk.rule('W6', 'the databaseUuid stored with a playlist entity by crate::add_track is read from '
                        'Information.uuid', floor=1)
    chk.assume('the DDL triggers behave as declared; SQLite integrity of pages is not the library\'s concern')
    chk.note('not decided: that an independent reader accepts the file after arbitrary histories '
             '(integrity_check, decoding of every stored blob, acyclicity of the chains)')

    forest_encodings(prog, cg, eff, chk, W1)
    # ---- W2 ------------------------------------------------------------------------------
    order = rowrules.enum_order(prog)
    from . import c13
    supported = c13._supported(prog)
    v2lo = order.index('schema_2_18_0')
    reps = c01.representative_versions(prog, order, 0, v2lo - 1, v2lo, max(order.index(e) for e in supported))
    seen = set()
    for gen, vi in reps:
        M = fm.FieldModel(prog, cg, eff, assume_schema=vi, enum_order=order)
        wu, aupd, _ = M.w_of(gen, 'update')
        wc, acre, _ = M.w_of(gen, 'create')
        dep, allw, aset = M.setter(gen, 'relative_path')
        for name, W, a in (('update', wu['relative_path'], aupd), ('create_track', wc['relative_path'], acre),
                           ('set_relative_path', dep, aset)):
            cols_ = {(k[0].lower(), k[1]) for k in W}
            disc = {v for k in W for _, v in k[2]}
            has_path = ('track', 'path') in cols_
            has_name = ('track', 'filename') in cols_
            has_ext = ('track', 'filetype') in cols_ or 'file_extension' in disc
            inst = '%s (%s..) %s writes path%s%s' % (gen, order[vi], name, ', filename' if has_name else '',
                                                      ', extension/fileType' if has_ext else '')
            key = '%s|%s|derived columns' % (gen, name)
            if has_path and has_name and has_ext:
                chk.ok(W2, inst, locstr(a.func.node))
            elif has_path:
                chk.violation(W2, key, locstr(a.func.node),
                              '%s but not %s from the same value: the stored file name / type no longer agree with '
                              'the track\'s path' % (inst, ' and '.join(
                                  [x for x, h in (('filename', has_name), ('extension / fileType', has_ext)) if not h])))
            else:
                chk.unknown(W2, inst, 'no write of Track.path found')
    _suffix_helpers(prog, cg, chk, W2, [a.func for a in (aupd, acre, aset)])
    # ---- W3 / W4 -------------------------------------------------------------------------
    funcs = c01.v1_storage_functions(prog)
    maps = [m for m in rowrules.expand_sites(prog, cg, eff, funcs)
            if (m.stmt.table or '').lower() in c01.TRACK_TABLES]
    tmaps = rowrules.expand_sites(prog, cg, eff, c18.table_functions(prog, 'track_table'))
    c01._codec_agreement(prog, chk, W3, maps + tmaps)
    c08._cleanup(prog, cg, eff, chk, W4, all_fk_relations=True)
    # ---- W7 / W8 ---------------------------------------------------------------------------
    from .. import domains
    W7 = chk.rule('W7', 'identifier-domain typing: every trigger body, view and library statement of every '
                        'supported version compares, assigns and inserts identifier columns only from columns '
                        'naming the same kind of row (spec/domains.json, cross-checked with the declared foreign keys)',
                  floor=150)
    domains.apply_rule(prog, eff, chk, W7)
    domains.apply_bind_rule(prog, cg, eff, chk, W7)
    W11 = chk.rule('W11', 'every stored performance blob decodes: each write path of the 1.x blobs applies the '
                          'decode-after-encode guard', floor=2)
    from . import c03 as _c03
    _c03._sibling_guard(prog, chk, W11)
    W10 = chk.rule('W10', 'verify() after reopening judges the file by the validator of the version stamped in it: each '
                          'creator stamps the triple of its own class', floor=50)
    from . import c13 as _c13
    _c13.version_stamp(prog, chk, W10)
    W9 = chk.rule('W9', 'a constant the track writers store in a foreign-key column of Track names a row that every '
                        'supported creator of the generation inserts (default album art entry)', floor=18)
    _default_rows(prog, cg, eff, chk, W9)
    W8 = chk.rule('W8', 'the per-version copies of the triggers that keep the 2.x sibling and entry chains and the '
                        'views over them are identical in every supported 2.x version, and every version has them', floor=5)
    c08.chain_trigger_siblings(prog, chk, W8, views=('playlistallparent', 'playlistallchildren', 'playlistpath'))
    from . import c09
    c09.splice_triggers_present(prog, chk, W8)
    # ---- W5 ------------------------------------------------------------------------------
    cats = rowrules.version_catalogs(prog)
    for en in order:
        if en not in supported or not rowrules._gen2(en):
            continue
        cat = cats[en]['main']
        for event in ('INSERT', 'UPDATE'):
            hit = [t for t in cat.triggers.values() if (t.table or '').lower() == 'track'
                   and (t.event or '').upper() == event and
                   any(s.kind == 'update' and (s.table or '').lower() == 'track' and
                       {'origintrackid', 'origindatabaseuuid'} <= {c.lower() for c, _ in s.sets} for s in (t.body or []))]
            inst = '%s: %s trigger on Track fills originTrackId / originDatabaseUuid' % (en, event)
            if hit:
                chk.ok(W5, inst, en)
            else:
                chk.violation(W5, '%s|no origin fix-up on %s' % (en, event.lower()), en,
                              inst + ': missing in the DDL - tracks are stored without their origin ids')
    # ---- W6 ------------------------------------------------------------------------------
    for f, ip, ret in evaluate(prog, cg, eff, V2 + 'crate_impl::add_track', 1):
        if 'int' not in (f.params[0].get('type') or ''):
            continue
        chk.analysed(f)
        ws = [w for w in ip.writes if (w.table or '').lower() == 'playlistentity' and w.column == 'databaseuuid']
        if not ws:
            chk.unknown(W6, _short(f.qualname), 'no write of PlaylistEntity.databaseUuid reached')
            continue
        src = {(x[1].lower(), x[2]) for x in vf.leaves(ws[0].value) if x[0] == 'loc'}
        inst = 'crate::add_track stores databaseUuid read from %s' % sorted(src)
        if src == {('information', 'uuid')}:
            chk.ok(W6, inst, ws[0].loc)
        else:
            chk.violation(W6, 'v2::crate_impl::add_track|databaseUuid source', ws[0].loc,
                          inst + ', expected Information.uuid: the entity would point into another database')
    W12 = chk.rule('W12', 'the MM:SS duration string (MetaData type 10, derived from Track.length) is formed the same way by '
                          'every writer: each number inserted into the stream has its own setw / setfill before it (setw '
                          'holds for one insertion only, so a single one at the start pads the minutes and not the seconds)',
                   floor=2)
    padded_fields(prog, chk, W12)
    W13 = chk.rule('W13', 'the entry chain of a list stays one chain: the function that inserts a row into PlaylistEntity makes the previous tail point at it: the id written into the old '
                        'tail is last_insert_rowid() read after the INSERT (not a predicted MAX(id) + 1, wrong once the '
                        'highest row of the AUTOINCREMENT table was deleted), and the old tail is found as the row of the '
                        'list whose next-pointer is the sentinel 0 (not by its id)', floor=1)
    from . import extra
    extra.new_tail_linked(prog, cg, eff, chk, W13)
    W14 = chk.rule('W14', 'every multi-statement co-update relies on the transaction guard: it begins, commits (flag set only after COMMIT succeeded) and rolls back exactly when not committed, so a failed operation leaves neither half a co-update nor an open transaction whose later work is lost on close', floor=4)
    from . import c14 as _c14g
    _c14g._guard_shape(prog, eff, chk, W14)
    W15 = chk.rule('W15', 'every compressed blob the library stores is one complete deflate stream (rule S6 of C03, for every '
                          'payload size incl. exact multiples of the chunk size): a truncated stream is unreadable by Engine',
                   floor=2)
    extra.deflate_complete(prog, chk, W15)
    W17 = chk.rule('W17', 'the rows a DELETE / UPDATE touches are selected by equality on keys, never by LIKE / GLOB against a '
                          'bound or computed pattern', floor=20)
    extra.no_pattern_match_in_writes(prog, cg, eff, chk, W17)
    W16 = chk.rule('W16', 'a co-update is made whatever is stored already: no write of a track / crate mutator is skipped on a comparison of the wanted value with a value derived from stored state (an accessor that looks at a column the function has just overwritten always agrees, and the dependent row is never rewritten)', floor=10)
    extra.writes_not_skipped_on_stored_state(prog, cg, eff, chk, W16, extra._mutators_of(prog, ('djinterop::engine::v1::engine_track_impl', 'djinterop::engine::v2::track_impl', 'djinterop::engine::v1::engine_crate_impl', 'djinterop::engine::v2::crate_impl')))
    return chk.finish('statement sites of the 1.x crate operations with resolved binds (roles), field model of '
                      'the track path per schema range, parsed triggers of every 2.x DDL, value flow of add_track')
