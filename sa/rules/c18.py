"""C18  A row written through the 2.x table API reads back as written.

B1  statement shape (placeholders == binds, INSERT widths, SELECT width == sink arity)
B2  column <-> row-field agreement across add / get / update and across schema ranges
B3  every table / column named resolves in the DDL of every version it can run under
B4  accessor pairing: get_X / set_X name the same column and that column carries field X
B5  row-existence reporting in single-row column accessors and remove()
B6  schema-gated accessors refuse exactly the versions whose DDL lacks the column
"""
import re

from .. import program, callgraph, effects, rowmap, rowrules, schemas
from ..frontend import AnalysisBroken
from ..program import children, strip, walk, locstr, literal_value
from ..report import Check

V2 = 'djinterop::engine::v2::'
TABLES = {
    'track_table': ('Track', V2 + 'track_row'),
    'playlist_table': ('Playlist', V2 + 'playlist_row'),
    'playlist_entity_table': ('PlaylistEntity', V2 + 'playlist_entity_row'),
    'information_table': ('Information', V2 + 'information_row'),
    'change_log_table': ('ChangeLog', V2 + 'change_log_row'),
}
# columns the database maintains itself (property text): not required to read back as written
DB_MAINTAINED = {'lastedittime', 'origindatabaseuuid', 'origintrackid'}


def _short(q):
    return q.replace('djinterop::engine::', '')


def table_functions(prog, cls):
    return [f for f in prog.functions.values()
            if (f.cls == V2 + cls or (f.file.endswith('/v2/%s.cpp' % cls) and f.cls is None))
            and f.body is not None and not f.is_pattern]


def shape(chk, rid, maps, prefix=''):
    for sm in maps:
        inst = '%s%s %s %s' % (prefix, _short(sm.func.qualname), sm.stmt.kind, sm.stmt.table or sm.stmt.name)
        if sm.problems:
            for p in sm.problems:
                chk.violation(rid, '%s|%s %s|%s' % (_short(sm.func.qualname), sm.stmt.kind,
                                                    sm.stmt.table, re.sub(r'\d+', 'N', p)[:40]),
                              sm.loc, '%s: %s' % (inst, p), facts={'sql': sm.text[:300]})
        else:
            chk.ok(rid, inst, sm.loc, detail={'placeholders': len(sm.stmt.params)})


def field_maps(maps, table, record):
    """For statements on `table` whose sources / targets are fields of `record`:
    [(SiteMap, {column(lower): field})]."""
    out = []
    for sm in maps:
        if (sm.stmt.table or '').lower() != table.lower():
            continue
        m = {}
        if sm.stmt.kind in ('insert', 'update'):
            for col, src, role, p in sm.col_src:
                if role not in ('value', 'set') or src is None or col is None:
                    continue
                if src.root and src.root[0] == 'param' and src.path:
                    m.setdefault(col.lower(), set()).add(src.field)
        elif sm.stmt.kind == 'select':
            for text, col, tgt in sm.out:
                if col and tgt and tgt[0] == 'field' and tgt[1] == record:
                    m.setdefault(col.lower(), set()).add(tgt[2])
        if len(m) >= 2:
            out.append((sm, m))
    return out


def agreement(chk, rid, fmaps, table, what):
    """Every column is tied to exactly one field across all maps, every field to one column."""
    col_field = {}
    for sm, m in fmaps:
        for col, fields in m.items():
            for fld in fields:
                col_field.setdefault(col, {}).setdefault(fld, []).append(sm)
    field_col = {}
    for col, d in col_field.items():
        for fld, sms in d.items():
            field_col.setdefault(fld, {}).setdefault(col, []).extend(sms)
    n = 0
    for sm, m in fmaps:
        bad = []
        for col, fields in m.items():
            for fld in fields:
                others = [f2 for f2 in col_field[col] if f2 != fld]
                if others:
                    # which side is the minority?
                    mine = len(col_field[col][fld])
                    theirs = max(len(col_field[col][o]) for o in others)
                    if mine <= theirs:
                        bad.append((col, fld, others))
                cols2 = [c2 for c2 in field_col[fld] if c2 != col]
                if cols2 and len(field_col[fld][col]) <= max(len(field_col[fld][c]) for c in cols2):
                    bad.append((col, fld, ['column ' + c for c in cols2]))
        inst = '%s %s %s (%d columns)' % (_short(sm.func.qualname), sm.stmt.kind, table, len(m))
        if bad:
            seen = set()
            for col, fld, others in bad:
                if (col, fld) in seen:
                    continue
                seen.add((col, fld))
                chk.violation(rid, '%s|%s %s|%s<->%s' % (_short(sm.func.qualname), sm.stmt.kind, table, col, fld),
                              sm.loc, '%s ties column %s to field %s, the other statements on %s tie it to %s '
                              '(transposed or misplaced bind: the value of one field is stored in / read '
                              'from another field\'s column)' % (inst, col, fld, table, others))
        else:
            chk.ok(rid, inst, sm.loc)
        n += 1
    return {c: next(iter(d)) for c, d in col_field.items() if len(d) == 1}


def resolve(chk, rid, maps, order, cats, lo_all, hi_all, label=''):
    """Names of each statement exist in every version of its guard interval."""
    for sm in maps:
        st = sm.stmt
        if st.kind not in ('insert', 'update', 'delete', 'select'):
            continue
        node = sm.site.node
        lo, hi = rowmap.schema_guard(sm.func, node, order)
        if sm.caller is not None:
            lo2, hi2 = rowmap.schema_guard(sm.caller, sm.callnode, order)
            lo, hi = max(lo, lo2), min(hi, hi2)
        lo, hi = max(lo, lo_all), min(hi, hi_all)
        tables = [(s, t) for (s, t, a) in (st.tables or [])] or [(st.schema, st.table)]
        cols = rowrules.stmt_columns(sm)
        single = len({t for _, t in tables if t}) == 1
        missing = []
        for vi in range(lo, hi + 1):
            en = order[vi]
            c = cats.get(en)
            if c is None:
                continue
            for sch, t in tables:
                if not t or t.startswith(effects.HOLE):
                    continue
                kind, obj, cat = rowrules.lookup_table(c, t)
                if kind is None:
                    if t.lower() in ('sqlite_master',):
                        continue
                    missing.append((en, 'table ' + t))
                    continue
                if single:
                    have = rowrules.columns_of(kind, obj, cat)
                    if have is None:
                        continue
                    for col in cols:
                        if col.lower() not in have and col.lower() not in ('rowid',):
                            missing.append((en, '%s.%s' % (t, col)))
        inst = '%s%s %s %s [%s..%s]%s' % (label, _short(sm.func.qualname), st.kind, st.table,
                                          order[lo] if lo <= hi else '-', order[hi] if lo <= hi else '-',
                                          (' via ' + _short(sm.caller.qualname) + '("%s")' % sm.hole[1]) if sm.caller else '')
        if lo > hi:
            chk.ok(rid, inst + ' (unreachable range)', sm.loc)
            continue
        if missing:
            by = {}
            for en, what in missing:
                by.setdefault(what, []).append(en)
            for what, ens in by.items():
                chk.violation(rid, '%s|%s|%s' % (_short((sm.caller or sm.func).qualname), st.kind, what), sm.loc,
                              '%s names %s, which does not exist in the schema of %s' % (
                                  inst, what, ', '.join(ens[:6]) + (' ...' if len(ens) > 6 else '')),
                              facts={'versions': ens})
        else:
            chk.ok(rid, inst, sm.loc, detail={'versions': hi - lo + 1, 'columns': len(cols)})


def accessor_types(prog, chk, B10):
    """Every per-column getter returns, and every setter takes, the type of the row field it
    corresponds to.  A getter that returns std::optional<T> for a field of type T can say "absent"
    for a stored NULL where get() has to invent a value (the epoch), so the two disagree."""
    n = 0
    for cls, (table, record) in TABLES.items():
        r = prog.records.get(record)
        if r is None:
            continue
        ft = {f.get('name'): (f.get('type') or '') for f in r.fields}

        def norm(t):
            return re.sub(r'\bconst\b|&|\s+', '', program.norm_type_name(t or ''))
        for f in table_functions(prog, cls):
            if f.cls is None:
                continue
            x = f.name[4:]
            if x not in ft:
                continue
            if f.name.startswith('get_') and len(f.params) == 1:
                acc, what = f.ret or '', 'returns'
            elif f.name.startswith('set_') and len(f.params) == 2:
                acc, what = f.params[1].get('type') or '', 'takes'
            else:
                continue
            n += 1
            inst = '%s::%s %s the type of row field %s' % (cls, f.name, what, x)
            if norm(acc) == norm(ft[x]):
                chk.ok(B10, inst, locstr(f.node))
            else:
                chk.violation(B10, '%s::%s|%s vs field %s' % (cls, f.name, norm(acc), norm(ft[x])), locstr(f.node),
                              '%s: not so - it %s %s while %s.%s is %s: for a stored NULL the accessor says "absent" '
                              'and the row read by get() carries an invented value (or the reverse), so getter and row '
                              'disagree' % (inst, what, acc.strip(), record.split('::')[-1], x, ft[x].strip()))
    if n < 50:
        chk.fail_broken('B10: only %d accessor / field pairs found' % n)


def run(tier='quick'):
    prog = program.load()
    cg = callgraph.get(prog)
    eff = effects.Effects(prog, cg)
    rowmap.install_program(prog)
    chk = Check('C18', tier)
    chk.units = len(prog.tus)
    B1 = chk.rule('B1', 'every statement of the five 2.x table classes has as many binds as placeholders, '
                        'INSERT column list and VALUES tuple of equal width, and a SELECT list as wide as '
                        'its sink', floor=50)
    B2 = chk.rule('B2', 'all row-level statements of a table (add / get / update, every schema range) tie '
                        'each column to the same row field and each field to one column', floor=12)
    B3 = chk.rule('B3', 'every table and column a statement names exists in the DDL (read from the '
                        'creators) of every schema version the enclosing schema guards admit', floor=100)
    B4 = chk.rule('B4', 'get_X and set_X name the same column, the column exists, and the row statements '
                        'tie that column to field X', floor=90)
    B5 = chk.rule('B5', 'every single-row column accessor and every remove() reports a missing row: the '
                        'result presence / rows_modified() is tested and the empty case throws', floor=5)
    B6 = chk.rule('B6', 'an accessor is refused (throws unsupported_operation) for exactly the 2.x versions '
                        'whose DDL lacks its column', floor=90)
    chk.rule('B12', 'a row field that the statement of a schema range does not store (its column does not exist there) is '
                    'not dropped silently: add() / update() throw when the field is engaged, as the per-column accessors '
                    'of the same column do (columns the database maintains - the id, the last-edit time - excepted)',
             floor=6)
    B7 = chk.rule('B7', 'an existence lookup that guards an INSERT in an add function compares a complete '
                        'unique key of the table (as declared in the DDL of every admitted version), bound from '
                        'the row fields the INSERT stores in those columns: a lookup on fewer columns can match '
                        'a different row, and the add then writes nothing', floor=1)
    chk.assume('SQLite stores and returns bound values of the declared affinity unchanged; time_point '
               'conversions (chrono.cpp) are value-level and not decided here')

    order = rowrules.enum_order(prog)
    cats = rowrules.version_catalogs(prog)
    from . import c13
    supported = c13._supported(prog)
    lo2 = order.index('schema_2_18_0')
    hi2 = max(order.index(e) for e in supported)
    chk.note('versions considered: the supported 2.x schemas %s..%s (read from supported_schemas); '
             'schema_3_0_0 is not a supported schema (see C13 known finding)' % (order[lo2], order[hi2]))
    all_maps = []
    col_of_field = {}
    for cls, (table, record) in TABLES.items():
        funcs = table_functions(prog, cls)
        if not funcs:
            raise AnalysisBroken('no functions found for %s' % cls)
        for f in funcs:
            chk.analysed(f)
        maps = rowrules.expand_sites(prog, cg, eff, funcs)
        all_maps += maps
        shape(chk, B1, maps)
        fm = field_maps(maps, table, record)
        cf = agreement(chk, B2, fm, table, cls)
        from . import c01 as _c01
        _c01.range_copy_agreement(chk, B2, maps)
        col_of_field[cls] = cf
        resolve(chk, B3, maps, order, cats, lo2, hi2)
        _unstored_fields_rejected(prog, chk, fm, cls, record, order, lo2, hi2, cf, cats, table)

    _accessors(prog, cg, chk, B4, B6, col_of_field.get('track_table', {}), order, cats, lo2, hi2)
    _row_existence(prog, cg, eff, chk, B5)
    _lookup_keys(prog, cg, eff, chk, B7, order, cats, lo2, hi2)
    chk.extra['statements'] = len(all_maps)
    B11 = chk.rule('B11', 'an operation that returns or removes "the" row named by its arguments names it completely: the '
                          'WHERE clause of its SELECT / DELETE covers the primary key or a whole UNIQUE constraint of the '
                          'table, so that it cannot match several rows (of which get() would return one and remove() '
                          'delete all)', floor=8)
    _single_row_keys(prog, cg, eff, chk, B11, order, cats, lo2, hi2)
    B10 = chk.rule('B10', 'every per-column getter returns and every setter takes the type of the row field it '
                          'corresponds to', floor=50)
    accessor_types(prog, chk, B10)
    B9 = chk.rule('B9', 'row identifiers stay 64 bits wide on their way through the table API: every parameter bound '
                        'against an identifier column (directly or through a callee), every lambda parameter that '
                        'receives one, and the constructors / id() of the handle classes', floor=100)
    from .. import domains
    domains.apply_width_rule(prog, cg, eff, chk, B9)
    _funcs = [f for f in prog.functions.values() if f.body is not None and not f.is_pattern
              and '/schema/' not in (f.file or '') and prog.in_repo(f.file)]
    rowrules.fetch_widths(prog, chk, B9, rowrules.expand_sites(prog, cg, eff, _funcs))
    B8 = chk.rule('B8', 'the util helpers that carry nullable columns to optional row fields and back '
                        '(optional<A> -> optional<B>) yield a value exactly when given one', floor=4)
    rowrules.optional_lifts(prog, chk, B8)
    B13 = chk.rule('B13', 'every SQL statement executes where it is written (its binder is a temporary of the full '
                          'expression): a statement kept in a named binder runs at the end of its scope, after the '
                          'rows_modified() / last_insert_rowid() test written behind it, which then judges the previous '
                          'statement of the connection', floor=100)
    from . import c14 as _c14
    _c14.immediate_statements(prog, eff, chk, B13)
    B14 = chk.rule('B14', 'the multi-statement table operations (playlist_table::add / update / remove, playlist_entity_table::add_back) rely on the transaction guard: BEGIN, COMMIT with the flag set only after it succeeded, ROLLBACK exactly when not committed', floor=4)
    from . import c14 as _c14g
    _c14g._guard_shape(prog, eff, chk, B14)
    from . import extra as _extra
    B15 = chk.rule('B15', 'a byte taken from a stored blob means 0..255: no (signed) char read through a pointer is widened '
                          'without going through an unsigned 8-bit type (a label of 128..255 bytes would otherwise be written '
                          'and then refused on read)', floor=1)
    _extra.bytes_read_unsigned(prog, chk, B15)
    B16 = chk.rule('B16', 'conversions between row fields and stored text / numbers do not depend on the process environment: '
                          'no repository function calls a time-zone, locale or environment dependent C routine (mktime, '
                          'localtime, strtod, setlocale, getenv ...), so that a time point written is the time point read '
                          'under every TZ', floor=1)
    _extra.environment_independent(prog, chk, B16)
    B17 = chk.rule('B17', 'a mutator of the table classes stores what it is given whatever is stored already: no argument-carrying write is skipped on a comparison of the argument with a value that a getter or accessor computed from the stored row (an update() that returns early when get(id) == row leaves a NULL that reads back as a default in place)', floor=10)
    _extra.writes_not_skipped_on_stored_state(prog, cg, eff, chk, B17, _extra._mutators_of(prog, ('djinterop::engine::v2::track_table', 'djinterop::engine::v2::playlist_table', 'djinterop::engine::v2::playlist_entity_table', 'djinterop::engine::v2::change_log_table', 'djinterop::engine::v2::information_table')))
    return chk.finish('statement-level analysis of the five 2.x table classes: %d statement instances '
                      'parsed from string literals, binds and sinks resolved to row fields through the '
                      'type-checked AST, names resolved against the DDL of all %d 2.x versions' % (
                          len(all_maps), hi2 - lo2 + 1))


def _accessor_column(prog, cg, f):
    """(helper name, column literal) of the get_column / set_column call in an accessor."""
    for e in cg.edges(f):
        if e.kind == 'direct' and e.name and e.name.split('::')[-1] in ('get_column', 'set_column'):
            for a in children(e.node)[1:]:
                v = literal_value(a)
                if isinstance(v, str):
                    return e.name.split('::')[-1], v, e.node
    return None, None, None


def _accessors(prog, cg, chk, B4, B6, col_field, order, cats, lo2, hi2):
    cls = V2 + 'track_table'
    acc = {}
    for f in prog.functions.values():
        if f.cls != cls or f.body is None:
            continue
        m = re.match(r'(get|set)_(\w+)$', f.name)
        if not m:
            continue
        helper, col, node = _accessor_column(prog, cg, f)
        if col is None:
            continue
        acc.setdefault(m.group(2), {})[m.group(1)] = (f, col, node)
    field_of_col = {c: fl for c, fl in col_field.items()}
    for x, d in sorted(acc.items()):
        for side in ('get', 'set'):
            if side not in d:
                chk.violation(B4, 'track_table|%s_%s missing' % (side, x), '?', 'accessor %s_%s not found' % (side, x))
        if 'get' not in d or 'set' not in d:
            continue
        (fg, cg_, ng), (fs, cs, ns) = d['get'], d['set']
        for (f, col, node, side) in ((fg, cg_, ng, 'get'), (fs, cs, ns, 'set')):
            chk.analysed(f)
            inst = 'track_table::%s_%s -> column %s' % (side, x, col)
            fld = field_of_col.get(col.lower())
            if cg_.lower() != cs.lower():
                chk.violation(B4, 'track_table|%s|get/set columns differ' % x, locstr(node),
                              'get_%s reads column %s but set_%s writes column %s' % (x, cg_, x, cs))
            elif fld is None:
                chk.violation(B4, 'track_table|%s_%s|unknown column %s' % (side, x, col), locstr(node),
                              '%s: the row statements (add/get/update) know no column of that name' % inst)
            elif fld != x:
                chk.violation(B4, 'track_table|%s_%s|column of another field' % (side, x), locstr(node),
                              '%s, but add/get/update tie that column to field %s, not %s' % (inst, fld, x))
            else:
                chk.ok(B4, inst, locstr(node))
            # B6: gate
            lo, hi = rowmap.schema_guard(f, node, order)
            lo, hi = max(lo, lo2), min(hi, hi2)
            allowed = set(order[lo:hi + 1])
            has = set()
            for vi in range(lo2, hi2 + 1):
                kind, obj, cat = rowrules.lookup_table(cats[order[vi]], 'Track')
                if kind and col.lower() in (rowrules.columns_of(kind, obj, cat) or []):
                    has.add(order[vi])
            throws_unsupported = True
            if allowed != set(order[lo2:hi2 + 1]):
                throws_unsupported = any(
                    'unsupported_operation' in (y.get('type') or '') for y in walk(f.body)
                    if y.get('kind') in ('CXXTemporaryObjectExpr', 'CXXConstructExpr', 'CXXFunctionalCastExpr'))
            if allowed == has and throws_unsupported:
                chk.ok(B6, inst + ' admitted for %d version(s)' % len(allowed), locstr(node))
            else:
                extra = sorted(allowed - has)
                lack = sorted(has - allowed)
                chk.violation(B6, 'track_table|%s_%s|gate' % (side, x), locstr(node),
                              '%s: %s%s%s' % (inst,
                                              ('admitted for %s whose Track table has no such column; ' % extra) if extra else '',
                                              ('refused for %s although the column exists; ' % lack) if lack else '',
                                              '' if throws_unsupported else 'the refusal does not throw unsupported_operation'))


def _row_existence(prog, cg, eff, chk, B5):
    """Single-row operations: helpers get_column / set_column and update / remove of each table."""
    targets = []
    for cls in TABLES:
        for f in table_functions(prog, cls):
            nm = f.name
            if nm in ('get_column', 'set_column') or nm in ('remove',):
                if eff.sites(f):
                    targets.append((cls, f))
    seen = set()
    for cls, f in targets:
        if (f.qualname, f.name) in seen and f.name in ('get_column', 'set_column'):
            continue
        seen.add((f.qualname, f.name))
        chk.analysed(f)
        sites = eff.sites(f)
        writes = [s for s in sites if effects.classify(s.stored_in) == 'write']
        inst = '%s::%s' % (cls, f.name)
        ok = False
        why = ''
        for n in walk(f.body):
            if n.get('kind') != 'IfStmt':
                continue
            c = children(n)
            cond = c[0]
            xcond = list(program.walk_expanded(cond, f.node))
            names = [strip(children(x)[0]).get('name') for x in xcond if x.get('kind') == 'CXXMemberCallExpr']
            refs = [(x.get('referencedDecl') or {}).get('name') for x in xcond if x.get('kind') == 'DeclRefExpr']
            throws_then = any(x.get('kind') == 'CXXThrowExpr' for x in walk(c[1]))
            returns_then = any(x.get('kind') == 'ReturnStmt' for x in walk(c[1]))
            # throw follows the if (guard returns early) ?
            throw_after = False
            par = None
            for p in walk(f.body):
                if n in children(p):
                    par = p
            if par is not None:
                after = children(par)[children(par).index(n) + 1:]
                throw_after = any(x.get('kind') == 'CXXThrowExpr' for a in after for x in walk(a))
            if 'rows_modified' in names and (throws_then or (returns_then and throw_after)):
                ok = True
                why = 'rows_modified() tested'
            if f.name == 'get_column' and (returns_then and throw_after or throws_then) and \
                    any('optional' in (x.get('type') or '') for x in xcond):
                ok = True
                why = 'result presence tested'
        if writes or f.name == 'get_column':
            if ok:
                chk.ok(B5, inst + ': ' + why, locstr(f.node))
            else:
                chk.violation(B5, 'v2::%s::%s|missing row accepted' % (cls, f.name), locstr(f.node),
                              '%s issues %s without testing rows_modified() / the result: naming a row '
                              'that does not exist succeeds silently' % (
                                  inst, ', '.join(s.stored_in.kind.upper() for s in writes) or 'a SELECT'))


DB_MAINTAINED = {'id', 'last_edit_time'}


def _unstored_fields_rejected(prog, chk, fmaps, cls, record, order, lo_all, hi_all, col_of_field, cats, table):
    rec = prog.records.get(record) or prog.records.get('djinterop::engine::v2::' + record.split('::')[-1])
    if rec is None:
        raise AnalysisBroken('B12: record %s not found' % record)
    allf = [x.get('name') for x in rec.fields]
    for sm, m in fmaps:
        if sm.func.name not in ('add', 'update') or sm.stmt.kind not in ('insert', 'update'):
            continue
        written = set()
        for fs in m.values():
            written |= set(fs)
        if len(written) < max(3, len(allf) // 2):
            continue            # a partial statement (splice of the chain), not the row statement
        lo, hi = rowmap.schema_guard(sm.func, sm.site.node, order)
        lo, hi = max(lo, lo_all), min(hi, hi_all)
        if lo > hi:
            continue
        rng = '%s..%s' % (order[lo], order[hi])
        unstored = []
        col_by_field = {v: k for k, v in col_of_field.items()}
        for x in allf:
            if x in written or x in DB_MAINTAINED:
                continue
            col = col_by_field.get(x)
            if col is None:
                continue        # no statement ties the field to a column: judged by B2
            # only a field whose column is absent from the table in the versions of this range
            absent = True
            for vi in range(lo, hi + 1):
                kind_, obj, cat = rowrules.lookup_table(cats[order[vi]], table)
                have = rowrules.columns_of(kind_, obj, cat) if kind_ else None
                if have is None or col.lower() in have:
                    absent = False
            if absent:
                unstored.append(x)
        inst0 = '%s::%s [%s]' % (cls, sm.func.name, rng)
        if not unstored:
            chk.ok('B12', inst0 + ' stores every field of the row', sm.loc)
            continue
        # a throw before the statement whose condition tests the field of the row parameter
        order_nodes = list(walk(sm.func.body))
        pos = {id(n): i for i, n in enumerate(order_nodes)}
        at = pos.get(id(sm.site.node), 10 ** 9)
        # ... in the function itself, or in a function it calls before the statement with the row as argument
        scopes = [(sm.func.body, at)]
        cg_ = callgraph.get(prog)
        for n in order_nodes:
            if n.get('kind') in ('CallExpr', 'CXXMemberCallExpr') and pos[id(n)] < at:
                e = cg_.edge_for(sm.func, n)
                for t in (e.targets if e is not None else ()):
                    if t.body is not None and prog.in_repo(t.file) and any(
                            record.split('::')[-1] in (p.get('type') or '') for p in t.params):
                        scopes.append((t.body, 10 ** 9))
        for fld in unstored:
            ok = False
            for body, limit in scopes:
                named = {}
                for d in walk(body):
                    if d.get('kind') == 'VarDecl' and 'bool' in (d.get('type') or ''):
                        named[d.get('id')] = d
                pos_b = pos if body is sm.func.body else {id(n): i for i, n in enumerate(walk(body))}
                for n in walk(body):
                    if n.get('kind') != 'IfStmt' or pos_b.get(id(n), 0) > limit:
                        continue
                    c = children(n)
                    if not any(x.get('kind') == 'CXXThrowExpr' for x in walk(c[1])):
                        continue
                    cond_nodes = list(walk(c[0]))
                    for x in list(cond_nodes):
                        if x.get('kind') == 'DeclRefExpr' and (x.get('referencedDecl') or {}).get('id') in named:
                            cond_nodes += list(walk(named[(x.get('referencedDecl') or {}).get('id')]))
                    if any(x.get('kind') == 'MemberExpr' and x.get('name') == fld for x in cond_nodes):
                        ok = True
            inst = '%s leaves out %s' % (inst0, fld)
            if ok:
                chk.ok('B12', inst + ' and throws when it is engaged', sm.loc)
            else:
                chk.violation('B12', 'v2::%s::%s|%s dropped on %s' % (cls, sm.func.name, fld, rng), sm.loc,
                              '%s: the column does not exist in these versions and nothing rejects a row that carries '
                              'the field - the call reports success and the value reads back absent, while the '
                              'per-column accessors of the same column throw unsupported_operation there' % inst)


def _single_row_keys(prog, cg, eff, chk, B11, order, cats, lo2, hi2):
    from .. import valueflow as vf
    for cls, (table, record) in TABLES.items():
        for f in table_functions(prog, cls):
            if f.cls is None or f.body is None:
                continue
            single = ('optional<' in (f.ret or '') and record.split('::')[-1] in (f.ret or '')) or f.name == 'remove'
            if not single:
                continue
            ip = vf.Interp(prog, cg, eff)
            ip.run(f)
            stmts = []
            if f.name == 'remove':
                seen = set()
                for w in ip.writes:
                    if w.kind == 'delete' and (w.table or '').lower() == table.lower() and w.loc not in seen:
                        seen.add(w.loc)
                        stmts.append(('DELETE', w.where or {}, w.loc))
            else:
                for r in ip.reads:
                    if (r.table or '').lower() == table.lower() and r.func.key == f.key:
                        stmts.append(('SELECT', r.where or {}, r.loc))
            for kind, where, loc in stmts:
                wcols = {c.lower() for c, v in where.items() if any(x[0] == 'in' for x in vf.leaves(v))}
                if not wcols:
                    continue
                problems = []
                for vi in range(lo2, hi2 + 1):
                    kind_, obj, cat = rowrules.lookup_table(cats[order[vi]], table)
                    if kind_ != 'table':
                        continue
                    keys = [set(c.lower() for c in u) for u in (obj.uniques or [])]
                    pk = [c.lower() for c in cat.pk_columns(obj)]
                    if pk:
                        keys.append(set(pk))
                    if keys and not any(k <= wcols for k in keys):
                        problems.append((order[vi], [sorted(k) for k in keys]))
                inst = '%s::%s: %s on %s keyed by (%s)' % (cls, f.name, kind, table, ', '.join(sorted(wcols)))
                if problems:
                    chk.violation(B11, 'v2::%s::%s|%s keyed by %s' % (cls, f.name, kind, ','.join(sorted(wcols))), loc,
                                  '%s covers no complete key of the table (keys: %s): rows that differ only in the '
                                  'remaining key column(s) are both accepted by add, get() then returns one of them and '
                                  'remove() deletes them all' % (inst, problems[0][1]))
                else:
                    chk.ok(B11, inst + ' covers a key', loc)


def _lookup_keys(prog, cg, eff, chk, B7, order, cats, lo2, hi2):
    from .. import valueflow as vf
    for cls, (table, record) in TABLES.items():
        for f in table_functions(prog, cls):
            if not f.name.startswith('add') or f.cls is None:
                continue
            ip = vf.Interp(prog, cg, eff)
            ip.run(f)
            inserts = [w for w in ip.writes if w.kind == 'insert' and w.table and w.table.lower() == table.lower()]
            if not inserts:
                continue
            stored = {}
            for w in inserts:
                stored.setdefault(w.column, set()).update(
                    (x[1], x[2]) for x in vf.leaves(w.value) if x[0] == 'in')
            lookups = [r for r in ip.reads if r.table and r.table.lower() == table.lower() and r.where]
            for rd in lookups:
                t, outs, loc, where, rfunc = rd.table, rd.outs, rd.loc, rd.where, rd.func
                wcols = {c.lower() for c in where}
                # only lookups keyed by the row being added
                keyed = {c for c, v in where.items() if any(x[0] == 'in' for x in vf.leaves(v))}
                if not keyed:
                    continue
                problems = []
                for vi in range(lo2, hi2 + 1):
                    kind, obj, cat = rowrules.lookup_table(cats[order[vi]], table)
                    if kind != 'table':
                        continue
                    keys = [set(c.lower() for c in u) for u in (obj.uniques or [])]
                    pk = [c.lower() for c in cat.pk_columns(obj)]
                    if pk:
                        keys.append(set(pk))
                    if not keys:
                        continue
                    if not any(k <= wcols for k in keys):
                        problems.append((order[vi], [sorted(k) for k in keys]))
                inst = '%s::%s lookup on %s(%s)' % (cls, f.name, table, ', '.join(sorted(wcols)))
                if problems:
                    chk.violation(B7, 'v2::%s::%s|lookup key %s' % (cls, f.name, ','.join(sorted(wcols))), loc,
                                  '%s (in %s) guards the INSERT but covers no complete unique key of %s (keys: %s): '
                                  'it can match a different row, in which case add() writes nothing and returns '
                                  'that row\'s id' % (inst, rfunc.qualname.replace('djinterop::engine::', ''),
                                                      table, problems[0][1]))
                else:
                    # same fields on both sides
                    bad = []
                    for c, v in where.items():
                        src = {(x[1], x[2]) for x in vf.leaves(v) if x[0] == 'in'}
                        if c.lower() in stored and src and stored[c.lower()] and src != stored[c.lower()]:
                            bad.append((c, sorted(src), sorted(stored[c.lower()])))
                    if bad:
                        chk.violation(B7, 'v2::%s::%s|lookup binds %s' % (cls, f.name, bad[0][0]), loc,
                                      '%s compares column %s with %s but the INSERT stores %s there' % (
                                          inst, bad[0][0], bad[0][1], bad[0][2]))
                    else:
                        chk.ok(B7, inst + ' covers a unique key', loc)
