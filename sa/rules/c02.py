"""C02  Written blobs agree with an independent decoder of the Engine format.

The independent implementation is the declarative layout table
spec/blob_layout.json.
L1 primitives  L2 encoders  L3 decoders  L4 framing
"""
import json
import os

from .. import program, codec
from ..frontend import AnalysisBroken, VERIF
from ..program import children, strip, walk, locstr
from ..report import Check


def load_spec():
    with open(os.path.join(VERIF, 'spec', 'blob_layout.json')) as f:
        return json.load(f)


def run(tier='quick'):
    prog = program.load()
    chk = Check('C02', tier)
    chk.units = len(prog.tus)
    L1 = chk.rule('L1', 'each of the 14 fixed-width primitives places byte i at the bit position its '
                        'endianness prescribes, composes 64-bit values from two 32-bit halves in the right '
                        'order, carries doubles bit-exactly and advances by its width', floor=14)
    L2 = chk.rule('L2', 'the emission grammar of every encoder equals the layout table entry for its blob, '
                        'item by item (primitive, logical field, repeat groups, byte runs)', floor=11)
    L3 = chk.rule('L3', 'the consumption grammar of every decoder equals the layout table entry', floor=11)
    L4 = chk.rule('L4', 'framing: 4-byte big-endian uncompressed length followed by one deflate stream for '
                        'the ten compressed codecs, loops stored raw; compressor and decompressor agree on it',
                  floor=13)
    chk.assume('spec/blob_layout.json states the Engine format (written from the format description, '
               'independently of the code)')
    chk.assume('zlib produces / accepts standard deflate streams')
    spec = load_spec()

    facts = codec.primitive_facts(prog)
    for name, (ok, why, *rest) in facts.items():
        f = rest[0] if rest else None
        loc = locstr(f.node) if f is not None else name
        if f is not None:
            chk.analysed(f)
        if ok is None:
            chk.unknown(L1, name, why)
        elif ok:
            chk.ok(L1, name, loc, detail=why)
        else:
            chk.violation(L1, 'primitive|%s' % name, loc, '%s: %s' % (name, why))

    grams = codec.all_grammars(prog)
    if len(grams) != len(spec['blobs']):
        raise AnalysisBroken('codec list and layout table differ in length')
    for name, ge, gd in grams:
        entry = spec['blobs'].get(name)
        if entry is None:
            raise AnalysisBroken('no layout table entry for ' + name)
        strict = name.startswith('v2 ')
        for g, rule, side in ((ge, L2, 'enc'), (gd, L3, 'dec')):
            chk.analysed(g.func)
            short = g.func.qualname.replace('djinterop::engine::', '')
            if g.unknown:
                for u in g.unknown:
                    chk.unknown(rule, short, u)
                continue
            lins = codec.linearise(g.items)
            bad = []
            for li, lin in enumerate(lins):
                for m in codec.match_spec(entry['items'], lin, strict, side):
                    if m not in bad:
                        bad.append(m)
            if bad:
                for m in bad[:6]:
                    chk.violation(rule, '%s|%s' % (short, m[:80]), locstr(g.func.node),
                                  '%s (%s): %s' % (short, name, m),
                                  facts={'grammar': g.flat(), 'layout': entry['items']})
            else:
                chk.ok(rule, '%s == layout of %s (%d alternative(s))' % (short, name, len(lins)),
                       locstr(g.func.node), detail=g.flat()[:12])
            # framing per codec
            if g.framing != entry['framing']:
                chk.violation(L4, 'framing|%s' % short, locstr(g.func.node),
                              '%s uses framing %r, the format says %r' % (short, g.framing, entry['framing']))
            else:
                chk.ok(L4, '%s framing %s' % (short, g.framing), locstr(g.func.node))
    _framing(prog, chk, L4)
    _columns(prog, chk, spec)
    L6 = chk.rule('L6', 'no member update is made on a local copy that is then dropped (conversion layer, codecs, '
                        'storage): the value that reaches the encoder is the one the code computed', floor=20)
    from .. import rowrules as _rr
    _rr.lost_updates(prog, chk, L6)
    L7 = chk.rule('L7', 'a decoder never narrows an integer it read from the blob: every conversion of a wider integer '
                        'to a narrower one in a decoder or its helpers is dominated by a test of both bounds of the '
                        'target type (a value the public type cannot hold is rejected, not reduced modulo 2^32)', floor=2)
    decoder_narrowing(prog, chk, L7)
    L8 = chk.rule('L8', 'the library reads what it writes and what an independent encoder of the same content writes: '
                        'every value test by which a decoder rejects a blob (a marker count against a constant, the '
                        'order of neighbouring markers) is matched by the encoder, and the two draw the line at the same '
                        'count (rule S9 of C03)', floor=2)
    from . import c03 as _c03
    _c03.domain_symmetry(prog, chk, L8, codec.all_grammars(prog))
    from . import extra
    L9 = chk.rule('L9', 'the decompressor returns exactly the bytes inflate() produced (result sized from the stream\'s output '
                        'counters or a mismatch rejected), so that what an independent decoder reads is what the library reads',
                  floor=1)
    extra.inflated_length_is_result_length(prog, chk, L9)
    return chk.finish(
        'Static comparison of the byte layout the code implements with an independent declarative layout '
        'table: the bit/byte mapping of the 14 primitives is derived from their AST, the ordered '
        'emission grammar of the 11 encoders and consumption grammar of the 11 decoders (helpers inlined, '
        'optional-slot alternatives enumerated) are extracted from the AST and matched item by item '
        'against the table, and the zlib framing is checked on both sides. A self-consistent change of '
        'encoder and decoder (field swap, endianness, dropped prefix, reordered colour channels) differs '
        'from the table and is reported with the first differing item.', exhaustive=True)


INT_BITS = {'long': 64, 'long long': 64, 'int64_t': 64, 'unsigned long': 64, 'unsigned long long': 64,
            'uint64_t': 64, 'size_t': 64, 'std::size_t': 64, 'ptrdiff_t': 64, 'std::ptrdiff_t': 64,
            'int': 32, 'int32_t': 32, 'unsigned int': 32, 'uint32_t': 32,
            'short': 16, 'int16_t': 16, 'unsigned short': 16, 'uint16_t': 16,
            'char': 8, 'signed char': 8, 'unsigned char': 8, 'int8_t': 8, 'uint8_t': 8}


def _bits(t):
    t = (t or '').replace('const ', '').replace('std::', '').strip()
    return INT_BITS.get(t)


def decoder_narrowing(prog, chk, rid):
    from .. import guards, callgraph
    from . import c05
    cg = callgraph.get(prog)
    roots = [prog.func(q) for q in c05.DECODERS]
    reach = cg.reachable(roots, stop=lambda f: not prog.in_repo(f.file))
    # the 2.x read converters that turn a decoded blob structure into the public value
    for f in prog.functions.values():
        if f.qualname.startswith('djinterop::engine::v2::convert::read::') and f.body is not None and \
                '_blob' in (f.type or ''):
            reach.setdefault(f.key, (f, None, None))
    n_inst = 0
    for key, (f, _, _) in sorted(reach.items(), key=lambda kv: (kv[1][0].file, kv[1][0].line)):
        if f.body is None or f.is_pattern or not prog.in_repo(f.file):
            continue
        casts = []
        lengths = []

        def visit(n, facts, _f=None, casts=casts, lengths=lengths):
            k = n.get('kind')
            if k not in ('CXXStaticCastExpr', 'CStyleCastExpr', 'CXXFunctionalCastExpr', 'ImplicitCastExpr'):
                return
            if n.get('castKind') != 'IntegralCast':
                return
            c = children(n)
            if not c:
                return
            src = strip(c[0], explicit=True)
            sb, db = _bits(src.get('dtype') or src.get('type')), _bits(n.get('dtype') or n.get('type'))
            if sb is None or db is None or db >= sb:
                return
            p = guards.canon(src)
            if p is None or not p.startswith('#'):
                return          # not a plain variable: arithmetic results are judged by C05 D2 / C15 U6
            if db >= 32 and _is_container_length(f, src):
                lengths.append((n, p, n.get('dtype') or n.get('type')))
                return
            casts.append((n, p, n.get('dtype') or n.get('type'), set(facts)))
        guards.walk_with_facts(f, visit)
        for n, p, ty in lengths:
            # not a number read from the blob but the length of a buffer in memory (or a difference of lengths and
            # constants): it fits 32 bits by the size assumption of the property
            chk.assume('buffers are smaller than 2^31 bytes (SQLite limits a blob to 10^9 bytes)')
            chk.analysed(f)
            chk.ok(rid, '%s: %s -> %s (the length of a buffer in memory, not a stored number)' % (
                f.qualname.replace('djinterop::engine::', ''), p.split(':', 1)[1], ty), locstr(n))
        for n, p, ty, facts in casts:
            n_inst += 1
            chk.analysed(f)
            B = [x for x in facts if isinstance(x, tuple) and x[0] == 'B' and x[1] == p]
            up = any(op in ('<', '<=') for (_, a, op, b) in B)
            lo = any(op in ('>', '>=') for (_, a, op, b) in B)
            eq = any(op == '==' for (_, a, op, b) in B)
            short = f.qualname.replace('djinterop::engine::', '')
            inst = '%s: %s -> %s' % (short, p.split(':', 1)[1], ty)
            if (up and lo) or eq:
                chk.ok(rid, inst + ' (both bounds tested)', locstr(n))
            else:
                chk.violation(rid, '%s|%s narrowed to %s' % (short, p.split(':', 1)[1], ty), locstr(n),
                              '%s at %s: the %s-bit value read from the blob is converted to %s without a '
                              'dominating test of %s: a stored value outside the target type is silently reduced '
                              '(an independent reader of the layout sees a different number)' % (
                                  inst, locstr(n), '64', ty,
                                  'either bound' if not (up or lo) else ('the lower bound' if up else 'the upper bound')))
    if n_inst == 0:
        raise AnalysisBroken('L7: no narrowing conversion found in any decoder (the beat index is narrowed to int '
                             'by construction of the public type)')


def _is_container_length(f, e, depth=0):
    """Is the value of e nothing but lengths of standard containers (`v.size()`, `s.length()`), integer literals
    and sums / differences of them, possibly through locals of f every definition of which is of that kind?"""
    e = strip(e, explicit=True)
    k = e.get('kind')
    if k == 'IntegerLiteral':
        return True
    if k == 'CXXMemberCallExpr':
        callee = strip(children(e)[0])
        recv = strip(children(callee)[0], explicit=True) if children(callee) else {}
        return callee.get('name') in ('size', 'length') and len(children(e)) == 1 and \
            'std::' in (recv.get('type') or '')
    if k == 'BinaryOperator' and e.get('opcode') in ('+', '-'):
        return all(_is_container_length(f, c, depth) for c in children(e))
    if k == 'DeclRefExpr' and depth < 4:
        ref = e.get('referencedDecl') or {}
        if ref.get('kind') != 'VarDecl':
            return False
        defs = []
        for x in walk(f.body):
            if x.get('kind') == 'VarDecl' and x.get('id') == ref.get('id'):
                init = [y for y in children(x) if not y['kind'].endswith('Attr')]
                if not init:
                    return False
                defs.append(init[-1])
            elif x.get('kind') in ('BinaryOperator', 'CompoundAssignOperator', 'UnaryOperator') and \
                    ((x.get('opcode') or '').endswith('=') and x.get('opcode') not in ('==', '!=', '<=', '>=')
                     or x.get('opcode') in ('++', '--')):
                l = strip(children(x)[0], explicit=True)
                if l.get('kind') == 'DeclRefExpr' and (l.get('referencedDecl') or {}).get('id') == ref.get('id'):
                    if x.get('kind') != 'BinaryOperator':
                        return False
                    defs.append(children(x)[1])
        return bool(defs) and all(_is_container_length(f, d, depth + 1) for d in defs)
    return False


def _columns(prog, chk, spec):
    """L5: the layout table says which column holds which blob; every statement that stores an
    encoded value in that column takes it from that codec's encoder and every statement that
    decodes the column uses that codec's decoder (a transposed column list stores well-formed
    blobs of the wrong kind)."""
    from .. import callgraph, effects, rowrules
    from . import c01, c18
    L5 = chk.rule('L5', 'each performance-data column is written from the encoder and read through the decoder '
                        'of the codec the layout table assigns to that column, at every statement of both '
                        'generations', floor=20)
    cg = callgraph.get(prog)
    eff = effects.Effects(prog, cg)
    maps = [m for m in rowrules.expand_sites(prog, cg, eff, c01.v1_storage_functions(prog))
            if (m.stmt.table or '').lower() in c01.TRACK_TABLES]
    maps += rowrules.expand_sites(prog, cg, eff, c18.table_functions(prog, 'track_table'))
    table = c01.codec_table(maps)
    want = {}
    for name, entry in spec['blobs'].items():
        col = entry.get('column')
        if not col:
            raise AnalysisBroken('layout table entry %s names no column' % name)
        want[tuple(col.split('.'))] = name.split()[1]
    for key, codec_name in sorted(want.items()):
        d = table.get(key)
        if d is None or not d.get('write') or not d.get('read'):
            chk.unknown(L5, '%s.%s' % key, 'no encoding write or no decoding read of this column was found')
            continue
        for side in ('write', 'read'):
            for cls, sms in sorted(d[side].items(), key=lambda kv: str(kv[0])):
                for sm in sms:
                    inst = '%s.%s %s at %s through %s' % (key[0], key[1], 'written' if side == 'write' else 'read',
                                                          sm.loc, cls)
                    if cls == codec_name:
                        chk.ok(L5, inst, sm.loc)
                    else:
                        chk.violation(L5, '%s.%s|%s through %s' % (key[0], key[1], side, cls), sm.loc,
                                      '%s, but the layout table stores %s in this column: an independent reader '
                                      'finds a blob of the wrong kind there' % (inst, codec_name))
    extra = sorted(set(table) - set(want))
    for key in extra:
        chk.violation(L5, '%s.%s|column not in the layout table' % key, '-',
                      'column %s.%s is written / read through a blob codec but the layout table has no entry '
                      'for it' % key)


def _framing(prog, chk, L4):
    from . import c03 as _c03
    zc = prog.func('djinterop::engine::zlib_compress')
    zu = prog.func('djinterop::engine::zlib_uncompress')
    chk.analysed(zc)
    chk.analysed(zu)
    out_param = zc.params[1]['id'] if len(zc.params) > 1 else None
    in_param = zc.params[0]['id']
    # compressor: resize(4) on the output, encode_int32_be(size of input, output.data())
    ok_resize = ok_prefix = ok_append = False
    order = []
    for n in walk(zc.body):
        if n.get('kind') == 'CXXMemberCallExpr':
            callee = strip(children(n)[0])
            recv = strip(children(callee)[0], explicit=True) if children(callee) else {}
            rid = (recv.get('referencedDecl') or {}).get('id')
            if callee.get('name') == 'resize' and rid == out_param:
                a = _c03._const_int(prog, zc, children(n)[1]) if len(children(n)) > 1 else None
                if a == 4:
                    ok_resize = True
                    order.append('resize')
            if callee.get('name') == 'insert' and rid == out_param:
                # inserted at end()
                ends = [x for x in walk(children(n)[1]) if x.get('kind') == 'MemberExpr' and x.get('name') == 'end']
                if ends:
                    ok_append = True
                    order.append('append')
        if n.get('kind') == 'CallExpr':
            nm = (strip(children(n)[0]).get('referencedDecl') or {}).get('name')
            if nm and nm.startswith('encode_'):
                args = children(n)[1:]
                src_ok = any(x.get('kind') == 'MemberExpr' and x.get('name') == 'size'
                             and (strip(children(x)[0], explicit=True).get('referencedDecl') or {}).get('id') == in_param
                             for x in walk(args[0]))
                dst_ok = any(x.get('kind') == 'MemberExpr' and x.get('name') == 'data'
                             and (strip(children(x)[0], explicit=True).get('referencedDecl') or {}).get('id') == out_param
                             for x in walk(args[1]))
                if nm == 'encode_int32_be' and src_ok and dst_ok:
                    ok_prefix = True
                    order.append('prefix')
                else:
                    chk.violation(L4, 'zlib_compress|prefix', locstr(n),
                                  'the length prefix is written with %s (source is input size: %s, destination is '
                                  'the start of the output: %s); the format is a 4-byte big-endian length at '
                                  'offset 0' % (nm, src_ok, dst_ok))
    if ok_resize and ok_prefix and ok_append and order.index('resize') < order.index('prefix') < order.index('append'):
        chk.ok(L4, 'zlib_compress: 4 bytes reserved, int32 BE length of the input at offset 0, stream appended',
               locstr(zc.node))
    elif not (ok_resize and ok_prefix and ok_append):
        chk.violation(L4, 'zlib_compress|shape', locstr(zc.node),
                      'compressor does not reserve 4 bytes (%s), write the BE length prefix (%s) and append '
                      'the deflate stream (%s)' % (ok_resize, ok_prefix, ok_append))
    else:
        chk.violation(L4, 'zlib_compress|order', locstr(zc.node), 'prefix / stream are written in the wrong order: %s' % order)
    # decompressor: decode_int32_be(input.data()), stream starts at offset 4
    in_u = zu.params[0]['id']
    ok_read = ok_off = False
    for n in walk(zu.body):
        if n.get('kind') == 'CallExpr':
            nm = (strip(children(n)[0]).get('referencedDecl') or {}).get('name')
            if nm and nm.startswith('decode_'):
                a = children(n)[1]
                at_start = any(x.get('kind') == 'MemberExpr' and x.get('name') == 'data'
                               and (strip(children(x)[0], explicit=True).get('referencedDecl') or {}).get('id') == in_u
                               for x in walk(a)) and not any(x.get('kind') == 'BinaryOperator' for x in walk(a))
                if nm == 'decode_int32_be' and at_start:
                    ok_read = True
                else:
                    chk.violation(L4, 'zlib_uncompress|prefix', locstr(n),
                                  'the length prefix is read with %s%s; the format is a 4-byte big-endian '
                                  'length at offset 0' % (nm, '' if at_start else ' at a non-zero offset'))
    # where the deflate stream is read from: the cursor handed to the z_stream (strm.next_in = cursor), by
    # its initial value `input.data() + K` / `&input[K]`
    # ... or of the expression stored there itself when the stream is handed the address directly
    # (`strm.next_in = input.data() + K`, the whole input before the loop)
    from . import c05
    cursors = []
    direct = []
    for n in walk(zu.body):
        if n.get('kind') == 'BinaryOperator' and n.get('opcode') == '=':
            l = strip(children(n)[0], explicit=True)
            if l.get('kind') == 'MemberExpr' and l.get('name') == 'next_in':
                named = False
                for x in walk(children(n)[1]):
                    if x.get('kind') == 'DeclRefExpr' and (x.get('referencedDecl') or {}).get('kind') == 'VarDecl' \
                            and '*' in (x.get('type') or ''):
                        d = zu.tu.ids.get(x['referencedDecl']['id'])
                        named = True
                        if d is not None and d not in cursors:
                            cursors.append(d)
                if not named and not c05._is_null(children(n)[1]):
                    direct.append(children(n)[1])
    if len(cursors) + len(direct) != 1:
        raise AnalysisBroken('zlib_uncompress: the input cursor handed to the z_stream was not found (%d candidates)'
                             % (len(cursors) + len(direct)))
    for n in cursors + direct:
        init = [n] if n in direct else [x for x in children(n) if not x['kind'].endswith('Attr')]
        if init:
            e = strip(init[-1], explicit=True)
            off = None
            if e.get('kind') == 'BinaryOperator' and e.get('opcode') == '+':
                off = _c03._const_int(prog, zu, children(e)[1])
            elif e.get('kind') == 'UnaryOperator' and e.get('opcode') == '&':
                for x in walk(e):
                    if x.get('kind') == 'IntegerLiteral':
                        off = int(x['value'])
            if off == 4:
                ok_off = True
            else:
                chk.violation(L4, 'zlib_uncompress|offset', locstr(n),
                              'the deflate stream is read from offset %r, the format puts it at offset 4' % off)
    if ok_read and ok_off:
        chk.ok(L4, 'zlib_uncompress: int32 BE length at offset 0, stream from offset 4', locstr(zu.node))
    elif not ok_read:
        chk.violation(L4, 'zlib_uncompress|no-prefix', locstr(zu.node), 'decompressor does not read the length prefix')
    _deflate_complete(prog, chk, L4, zc)
    _pending_output(prog, chk, L4, zc, 'deflate')
    _pending_output(prog, chk, L4, zu, 'inflate')
    loop = c05.zlib_loop(prog, zu)
    c05.benign_buf_error(prog, chk, L4, zu, *loop)
    if loop[2].get('whole'):
        _whole_input_extent(prog, chk, L4, zu, loop)
    # every compressed codec goes through these two functions: checked per codec above (framing)


def _deflate_complete(prog, chk, L4, zc):
    """The stream appended after the prefix must be ONE COMPLETE deflate stream for every
    payload size: finite evaluation of the compressor's chunk loop for payload sizes at every
    boundary of its own comparisons (0, 1, chunk-1, chunk, chunk+1, 2*chunk-1, 2*chunk,
    2*chunk+1, 3*chunk): the input handed to deflate() must add up to the payload, the last
    call must pass Z_FINISH, and the loop must end."""
    from ..feval import Evaluator, UNKNOWN
    from . import c05
    outer = [n for n in children(zc.body) if n.get('kind') in ('DoStmt', 'WhileStmt')]
    if len(outer) != 1:
        raise AnalysisBroken('zlib_compress: expected one top-level loop, found %d' % len(outer))
    outer = outer[0]
    if outer['kind'] == 'DoStmt':
        obody, ocond = children(outer)[0], children(outer)[1]
        test_first = False
    else:
        ocond, obody = children(outer)[0], children(outer)[-1]
        test_first = True
    from . import c03 as _c03
    strm = [x for x in walk(zc.body) if x.get('kind') == 'VarDecl' and 'z_stream' in (x.get('type') or '')]
    if len(strm) != 1:
        raise AnalysisBroken('zlib_compress: z_stream variable not found')
    sid = strm[0]['id']
    # roles by data flow: the input cursor is the pointer stored into strm.next_in, the limit is the other
    # pointer it is compared with / subtracted from, the chunk size is the constant given to strm.avail_out
    def ptr_vars(e):
        out = []
        for x in walk(e):
            if x.get('kind') == 'DeclRefExpr' and (x.get('referencedDecl') or {}).get('kind') == 'VarDecl' \
                    and '*' in (x.get('type') or ''):
                d = zc.tu.ids.get(x['referencedDecl']['id'])
                if d is not None and d not in out:
                    out.append(d)
        return out
    cur, chunk = [], None
    for n in walk(zc.body):
        if n.get('kind') == 'BinaryOperator' and n.get('opcode') == '=':
            l = strip(children(n)[0], explicit=True)
            if l.get('kind') == 'MemberExpr' and l.get('name') == 'next_in':
                cur += [d for d in ptr_vars(children(n)[1]) if d not in cur]
            elif l.get('kind') == 'MemberExpr' and l.get('name') == 'avail_out':
                v = _c03._const_int(prog, zc, children(n)[1])
                chunk = v if isinstance(v, int) else chunk
    lim = []
    if len(cur) == 1:
        for n in walk(zc.body):
            if n.get('kind') == 'BinaryOperator' and n.get('opcode') in ('<', '<=', '>', '>=', '-', '==', '!='):
                vs = ptr_vars(n)
                if cur[0] in vs:
                    lim += [d for d in vs if d is not cur[0] and d not in lim]
    if len(cur) != 1 or len(lim) != 1:
        raise AnalysisBroken('zlib_compress: input cursor / limit variables not found')
    vars_ = {'ptr': cur[0], 'end': lim[0]}
    if not isinstance(chunk, int) or chunk <= 0:
        raise AnalysisBroken('zlib_compress: chunk size constant not found')
    Z_FINISH = 4
    sizes = sorted({0, 1, chunk - 1, chunk, chunk + 1, 2 * chunk - 1, 2 * chunk, 2 * chunk + 1, 3 * chunk})
    for size in sizes:
        ev = Evaluator(prog, zc, lambda *a, **k: NotImplemented)
        ev.inner_cond = []
        ev.in_left = None
        ev.deflate_calls = []
        c05._patch(ev, sid, 0, False)
        env = {vars_['ptr']['id']: 0, vars_['end']['id']: size}
        for stx in children(zc.body):
            if stx.get('kind') == 'DeclStmt':
                for d in children(stx):
                    if d.get('kind') == 'VarDecl' and d['id'] not in env:
                        v = program.literal_value(d)
                        if isinstance(v, int):
                            env[d['id']] = v
        rounds = 0
        outcome = None
        while rounds < 8:
            if test_first and c05._cond(ev, ocond, env) == 'exits':
                outcome = 'exits'
                break
            rounds += 1
            sts = list(ev.exec(obody, env, ()))
            if len(sts) != 1 or sts[0][0] is not None:
                kinds = [st.kind if st is not None else 'normal' for st, _ in sts]
                if kinds == ['break']:
                    outcome = 'exits'
                    env = sts[0][1]
                    break
                raise AnalysisBroken('zlib_compress: chunk loop body is not deterministic for payload '
                                     'size %d (%s): outside the modelled subset' % (size, kinds))
            env = sts[0][1]
            if any(ev.inner_cond[-1:]):
                outcome = 'inner loop repeats without progress'
                break
            if not test_first and c05._cond(ev, ocond, env) == 'exits':
                outcome = 'exits'
                break
        inst = 'payload of %d byte(s)' % size
        fed = [a for a, _ in ev.deflate_calls]
        flushes = [f for _, f in ev.deflate_calls]
        total = sum(a for a in fed if isinstance(a, int)) if all(isinstance(a, int) for a in fed) else None
        problems = []
        if outcome != 'exits':
            problems.append('the chunk loop does not end within 8 rounds (%s)' % outcome)
        if total != size:
            problems.append('deflate() is fed %s byte(s) in total' % total)
        if not flushes or flushes[-1] != Z_FINISH:
            problems.append('the last deflate() call passes flush=%s, not Z_FINISH: the stream is left '
                            'unterminated' % (flushes[-1] if flushes else None))
        if any(f == Z_FINISH for f in flushes[:-1]):
            problems.append('Z_FINISH is passed before the last chunk')
        if problems:
            chk.violation(L4, 'zlib_compress|stream-complete|size %s' % (
                'multiple of chunk' if size and size % chunk == 0 else
                ('0' if size == 0 else 'other')), locstr(outer),
                '%s: %s (calls: %s)' % (inst, '; '.join(problems), ev.deflate_calls),
                facts={'payload_size': size, 'deflate_calls': [list(map(str, c)) for c in ev.deflate_calls]})
        else:
            chk.ok(L4, 'zlib_compress: %s -> %d deflate call(s), last with Z_FINISH' % (inst, len(flushes)),
                   locstr(outer), site='deflate-complete-%d' % size)


def _pending_output(prog, chk, L4, f, api):
    """The inner loop around deflate()/inflate() must run again exactly while the output
    buffer came back full (more output is pending): evaluated on the loop condition for
    avail_out in {0, >0} x avail_in in {0, >0}.  Otherwise part of the stream is dropped."""
    from ..feval import Evaluator, UNKNOWN, Choice
    from . import c05
    if api == 'inflate':
        try:
            loop = c05.zlib_loop(prog, f)
        except AnalysisBroken:
            loop = None         # not the whole-input form as far as can be told: the two-loop form below decides
        if loop is not None and loop[2].get('whole'):
            return _whole_input_output(prog, chk, L4, f, *loop)
    inner = None
    for n in walk(f.body):
        if n.get('kind') in ('DoStmt', 'WhileStmt'):
            calls = [x for x in walk(n) if x.get('kind') == 'CallExpr' and
                     (strip(children(x)[0]).get('referencedDecl') or {}).get('name') == api]
            loops_inside = [x for x in walk(n) if x is not n and x.get('kind') in ('DoStmt', 'WhileStmt', 'ForStmt')]
            if calls and not loops_inside:
                inner = n
    if inner is None:
        raise AnalysisBroken('%s: inner %s loop not found' % (f.name, api))
    cond = children(inner)[1] if inner['kind'] == 'DoStmt' else children(inner)[0]
    strm = [x for x in walk(f.body) if x.get('kind') == 'VarDecl' and 'z_stream' in (x.get('type') or '')]
    sid = strm[0]['id']
    ev = Evaluator(prog, f, lambda *a, **k: NotImplemented)
    ev.inner_cond, ev.in_left, ev.deflate_calls = [], None, []
    c05._patch(ev, sid, 0, False)
    for out_left, want in ((0, True), (1, False)):
        for in_left in (0, 5):
            if api == 'inflate' and out_left and in_left:
                continue    # inflate returns with free output space only when it needs input or ended
            env = {('member', sid, 'avail_out'): out_left, ('member', sid, 'avail_in'): in_left}
            v = ev.ev(cond, env)
            unknown = v is UNKNOWN or isinstance(v, Choice)
            got = None if unknown else bool(ev.truth(v))
            inst = '%s: inner loop after %s() with output buffer %s, %s input left' % (
                f.name, api, 'full' if out_left == 0 else 'not full', 'some' if in_left else 'no')
            if got is want:
                chk.ok(L4, inst + (' -> runs again' if want else ' -> ends'), locstr(inner),
                       site=inst)
            elif want and got is False:
                chk.violation(L4, '%s|pending-output-dropped' % f.name, locstr(inner),
                              inst + ': the loop ends although more output is pending; the rest of the '
                              'stream is silently dropped (%s)' % (
                                  'truncated blob' if api == 'deflate' else 'truncated payload'))
            elif not want and got is True:
                chk.violation(L4, '%s|inner-spins' % f.name, locstr(inner),
                              inst + ': the loop runs again although no output is pending')
            else:
                chk.unknown(L4, inst, 'loop condition depends on values outside the model')


def _whole_input_extent(prog, chk, L4, zu, loop):
    """Whole-input form: the one deflate stream is everything behind the prefix - the stream is handed
    input.data() + 4 and input.size() - 4 bytes, for every input size at which the loop is reached (sizes
    0 .. 6 and a large one are evaluated; a size below 4 must not reach the loop at all)."""
    from ..feval import UNKNOWN
    from . import c05
    obody, ocond, vars_, sid, outer = loop
    in_u = zu.params[0]['id']
    bad = []
    reached = 0
    for size in (0, 1, 2, 3, 4, 5, 6, 1000):
        ev, states, _ = c05.prefix_states(prog, zu, sid, outer, {in_u: size})
        for st, env in states:
            if st is not None:
                continue
            reached += 1
            off = ev.binop('-', env.get(('member', sid, 'next_in'), UNKNOWN), c05.container_data(env, in_u))
            n = env.get(('member', sid, 'avail_in'), UNKNOWN)
            if not isinstance(off, int) or not isinstance(n, int):
                chk.unknown(L4, 'zlib_uncompress', 'input of %d byte(s): what the stream is handed before the loop '
                            '(next_in - input.data() = %r, avail_in = %r) is outside the model' % (size, off, n))
                return
            if off != 4 or n != size - 4:
                bad.append('input of %d byte(s): the stream is handed offset %d and %d byte(s)' % (size, off, n))
    if not reached:
        raise AnalysisBroken('zlib_uncompress: no evaluated input size reaches the loop around inflate()')
    if bad:
        chk.violation(L4, 'zlib_uncompress|stream-extent', locstr(outer),
                      'the deflate stream is everything from offset 4 to the end of the blob, but %s' % '; '.join(bad[:3]))
    else:
        chk.ok(L4, 'zlib_uncompress: the stream handed to inflate() is input[4 .. size) for every input size that '
                   'reaches the loop', locstr(outer))


def _whole_input_output(prog, chk, L4, f, obody, ocond, vars_, sid, outer):
    """_pending_output for the form in which the stream has its whole input before a single loop around
    inflate(): the loop runs again exactly while the output room came back used up, and every byte inflate()
    wrote is part of the result - written in place into the returned vector (the room handed to the stream
    starts where the bytes produced so far end and lies inside the vector, also after the vector was grown;
    the final size is the number of bytes produced), or appended to it round by round."""
    from ..feval import UNKNOWN
    from . import c05
    Z = c05.Z_CODES
    where = locstr(outer)
    name = f.name
    for in_left in (0, 5):
        res = c05._zlib_round(prog, f, obody, ocond, vars_, sid, Z['Z_OK'], True, exhausted=not in_left, in_left=in_left)
        inst = '%s: loop after inflate() returned Z_OK with the output room used up, %s input left' % (
            name, 'some' if in_left else 'no')
        if res == {'continues'}:
            chk.ok(L4, inst + ' -> runs again', where, site=inst)
        elif 'continues' not in res:
            chk.violation(L4, '%s|pending-output-dropped' % name, where,
                          inst + ': the loop ends (%s) although more output is pending; the rest of the stream is '
                          'silently dropped or the valid stream rejected (truncated payload)' % ','.join(sorted(res)))
        else:
            chk.unknown(L4, inst, 'whether the loop runs again depends on values outside the model (%s)' % sorted(res))
    res = c05._zlib_round(prog, f, obody, ocond, vars_, sid, Z['Z_OK'], False, exhausted=True, in_left=0)
    inst = '%s: loop after inflate() with output room left, no input left' % name
    if 'continues' not in res:
        chk.ok(L4, inst + ' -> ends', where, site=inst)
    else:
        chk.violation(L4, '%s|inner-spins' % name, where, inst + ': the loop runs again although no output is pending')

    # ---- where the output goes -------------------------------------------------------------------------
    vec = c05.vector_ids(f)
    ev, states, post = c05.prefix_states(prog, f, sid, outer)
    target = None
    first = []
    for st, env in states:
        if st is not None:
            continue
        no = env.get(('member', sid, 'next_out'), UNKNOWN)
        hit = [cid for cid in vec if isinstance(ev.binop('-', no, c05.container_data(env, cid)), int)]
        first.append((env, no, hit))
    if not first:
        raise AnalysisBroken('%s: no evaluated path reaches the loop around inflate()' % name)
    stores_in_loop = any(c05._stream_store(x, sid, ('next_out',)) for x in walk(obody))
    if all(not hit for _, _, hit in first):
        if stores_in_loop:
            return _appended_output(prog, chk, L4, f, obody, ocond, vars_, sid, outer, vec, post)
        raise AnalysisBroken('%s: where inflate() writes (next_out before the loop: %r) is neither the storage of a '
                             'vector nor set in the loop: not modelled' % (name, first[0][1]))
    targets = {tuple(hit) for _, _, hit in first}
    if len(targets) != 1 or len(first[0][2]) != 1:
        raise AnalysisBroken('%s: the output pointer before the loop does not name one vector on every path' % name)
    target = first[0][2][0]
    inst = '%s: inflate() writes in place into the vector the function returns, from its first byte, inside it' % name
    problems = []
    for env, no, _ in first:
        off = ev.binop('-', no, c05.container_data(env, target))
        room = env.get(('member', sid, 'avail_out'), UNKNOWN)
        inside = ev.binop('<=', ev.binop('+', off, room), env.get(('size', target), UNKNOWN))
        if off != 0:
            problems.append('the first output byte goes to offset %r of the vector' % off)
        elif inside is not True:
            problems.append('the room handed to the stream (%r) is not known to lie inside the vector (size %r)' % (
                room, env.get(('size', target), UNKNOWN)))
    returned = _returned_ids(post)
    if returned != {target}:
        problems.append('the function does not return that vector on every path behind the loop')
    if problems:
        chk.violation(L4, '%s|output-window|first' % name, where, inst + ': ' + '; '.join(sorted(set(problems))))
    else:
        chk.ok(L4, inst, where, site=inst)

    # invariant at the head of a round: 1000 bytes of vector, 300 produced so far, the stream is to write behind them
    def start(e):
        e.containers, e.track_output, e.inflate_entries, e.appends = vec, True, [], []
        kept.append(e)
    kept = []
    base = c05.container_data({}, target)
    inv = {('size', target): 1000, ('member', sid, 'next_out'): ev.binop('+', base, 300),
           ('member', sid, 'avail_out'): 700, ('member', sid, 'total_out'): 300}
    res, ends = c05._zlib_round(prog, f, obody, ocond, vars_, sid, Z['Z_OK'], True, exhausted=False, in_left=5,
                                want_states=True, preset=inv, configure=start)
    inst = '%s: after a round that used up the output room the next one writes behind the %s' % (name, 'bytes produced')
    problems = []
    for r, e in ends:
        if r != 'continues':
            continue
        off = kept[-1].binop('-', e.get(('member', sid, 'next_out'), UNKNOWN), c05.container_data(e, target))
        room = e.get(('member', sid, 'avail_out'), UNKNOWN)
        size = e.get(('size', target), UNKNOWN)
        if off != 1000:
            problems.append('the output pointer is at %s, not at the storage of the vector + the 1000 bytes produced' % (
                ('offset %d of the vector' % off) if isinstance(off, int) else
                'an address that is not inside the vector as it is now (taken before the vector was grown?)'))
        elif not (isinstance(room, int) and isinstance(size, int) and 0 < room <= size - off):
            problems.append('the room handed to the stream (%r byte(s) at offset %r) does not lie inside the vector '
                            '(size %r)' % (room, off, size))
    if problems:
        chk.violation(L4, '%s|output-window|next' % name, where,
                      inst + ': ' + '; '.join(sorted(set(problems))) + ': part of the payload is overwritten, left out '
                      'or written outside the result')
    elif any(r == 'continues' for r, _ in ends):
        chk.ok(L4, inst + ', inside the (grown) vector', where, site=inst)
    # (no continuing round: reported above as pending output dropped)

    # the end of the stream: what is returned is what was produced
    inst = '%s: at the end of the stream the returned vector holds exactly the bytes inflate() produced' % name
    problems = []
    n_ret = n_exit = 0
    for full in (False, True):
        kept = []
        res, ends = c05._zlib_round(prog, f, obody, ocond, vars_, sid, Z['Z_STREAM_END'], full, exhausted=True, in_left=0,
                                    want_states=True, preset=inv, configure=start)
        for r, e in ends:
            if r != 'exits':
                continue
            n_exit += 1
            produced = e.get(('member', sid, 'total_out'), UNKNOWN)
            for st, e2 in kept[-1].exec({'kind': 'CompoundStmt', 'inner': post}, dict(e), ()):
                if st is None or st.kind != 'return':
                    continue
                n_ret += 1
                size = e2.get(('size', target), UNKNOWN)
                if not isinstance(size, int) or not isinstance(produced, int):
                    chk.unknown(L4, inst, 'the size of the returned vector (%r) or the number of bytes produced (%r) is '
                                'outside the model' % (size, produced))
                    return
                if size != produced:
                    problems.append('%d byte(s) were produced (output room %s) and the vector returned has %d' % (
                        produced, 'used up' if full else 'left', size))
    if problems:
        chk.violation(L4, '%s|result-size' % name, where, inst + ': ' + '; '.join(sorted(set(problems))))
    elif n_ret:
        chk.ok(L4, inst + ' (output room left / used up)', where, site=inst)
    elif n_exit:
        chk.unknown(L4, inst, 'no evaluated path returns after Z_STREAM_END')
    else:
        chk.violation(L4, '%s|result-size|end of stream not left' % name, where,
                      inst + ': the loop is not left when inflate() returns Z_STREAM_END, so the bytes produced are '
                      'never returned')


def _returned_ids(stmts):
    """ids of the variables the return statements in stmts return (None for anything else)"""
    out = set()
    for st in stmts:
        for x in walk(st):
            if x.get('kind') == 'ReturnStmt':
                e = strip(children(x)[0], explicit=True) if children(x) else {}
                while e.get('kind') in ('CXXConstructExpr', 'MaterializeTemporaryExpr', 'CXXBindTemporaryExpr') and \
                        len(children(e)) == 1:
                    e = strip(children(e)[0], explicit=True)
                out.add((e.get('referencedDecl') or {}).get('id') if e.get('kind') == 'DeclRefExpr' else None)
    return out


def _appended_output(prog, chk, L4, f, obody, ocond, vars_, sid, outer, vec, post):
    """Whole-input form with a separate output buffer armed in the loop: every round that does not throw appends
    to the returned vector exactly the bytes inflate() wrote in that round (taken from where it wrote them)."""
    from ..feval import UNKNOWN
    from . import c05
    Z = c05.Z_CODES
    where = locstr(outer)
    name = f.name
    returned = _returned_ids(post)
    if len(returned) != 1 or None in returned or not (returned <= vec):
        raise AnalysisBroken('%s: the function does not return one vector behind the loop: not modelled' % name)
    target = list(returned)[0]
    inst = '%s: every round appends to the returned vector the bytes inflate() wrote in it' % name
    problems = []
    rounds = 0
    for cname, full in (('Z_OK', True), ('Z_OK', False), ('Z_STREAM_END', True), ('Z_STREAM_END', False)):
        kept = []

        def start(e):
            e.containers, e.track_output, e.inflate_entries, e.appends = vec, True, [], []
            kept.append(e)
        res, ends = c05._zlib_round(prog, f, obody, ocond, vars_, sid, Z[cname], full, exhausted=not full,
                                    in_left=5 if full else 0, want_states=True,
                                    preset={('size', target): 1000, ('member', sid, 'total_out'): 1000}, configure=start)
        e0 = kept[-1]
        for r, e in ends:
            if r == 'throw':
                continue
            rounds += 1
            grown = e0.binop('-', e.get(('size', target), UNKNOWN), 1000)
            wrote = e0.binop('-', e.get(('member', sid, 'total_out'), UNKNOWN), 1000)
            if not isinstance(grown, int) or not isinstance(wrote, int):
                chk.unknown(L4, inst, 'inflate returns %s: the growth of the result (%r) or the number of bytes written '
                            '(%r) is outside the model' % (cname, grown, wrote))
                return
            src_ok = e0.inflate_entries and all(
                a['container'] == target and a['at_end'] and a['source'] == e0.inflate_entries[-1][0] for a in e0.appends)
            if grown != wrote:
                problems.append('inflate returns %s with the output room %s: %d byte(s) written, the result grows by %d' % (
                    cname, 'used up' if full else 'left', wrote, grown))
            elif wrote and not src_ok:
                problems.append('inflate returns %s: what is appended is not taken from where inflate() wrote' % cname)
    if problems:
        chk.violation(L4, '%s|pending-output-dropped|append' % name, where, inst + ': ' + '; '.join(problems[:3]))
    elif rounds:
        chk.ok(L4, inst, where, site=inst)
    else:
        chk.unknown(L4, inst, 'no evaluated round completes')
