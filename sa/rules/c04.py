"""C04  Re-encoding a decoded foreign blob preserves every byte (2.x codecs and setters).

P1  lossless structure of the five 2.x codecs
P2  read-modify-write discipline of the 2.x track setters
"""
import re

from .. import program, codec, callgraph
from ..codec import WIDTH, linearise, is_plain
from ..frontend import AnalysisBroken
from ..program import children, strip, walk, locstr, literal_value
from ..report import Check
from . import c03

ENG = 'djinterop::engine::'
V2 = ENG + 'v2::'

WIRE_TYPES = {
    'uint8': ('unsigned char', 'uint8_t', 'uint_least8_t', 'std::byte', 'char'),
    'int32_le': ('int', 'int32_t'), 'int32_be': ('int', 'int32_t'),
    'int64_le': ('long', 'int64_t', 'long long'), 'int64_be': ('long', 'int64_t', 'long long'),
    'double_le': ('double',), 'double_be': ('double',),
}
# the single normalisation the property grants
BOOL_EXCEPTION = {('v2 quick_cues_blob', 'is_main_cue_adjusted')}

# which members of the blob a high-level setter is meant to replace (its logical field);
# '[i]' marks "only the element selected by the index parameter".  One line of reason each.
INTENDED = {
    'set_average_loudness': ('track_data', {'average_loudness_low', 'average_loudness_mid', 'average_loudness_high'},
                             'the three band loudness values are the 2.x representation of average loudness'),
    'set_beatgrid': ('beat_data', {'adjusted_beat_grid', 'default_beat_grid', 'is_beatgrid_set'},
                     'both grids and the is-set flag represent the beat grid'),
    'set_hot_cue_at': ('quick_cues', {'quick_cues[i]'}, 'one cue slot'),
    'set_hot_cues': ('quick_cues', {'quick_cues'}, 'all cue slots'),
    'set_key': ('track_data', {'key'}, 'key copy inside trackData'),
    'set_loop_at': ('loops', {'loops[i]'}, 'one loop slot'),
    'set_loops': ('loops', {'loops'}, 'all loop slots'),
    'set_main_cue': ('quick_cues', {'adjusted_main_cue', 'default_main_cue', 'is_main_cue_adjusted'},
                     'main cue triple'),
    'set_sample_count': ('track_data+beat_data', {'samples'}, 'sample count is stored in both blobs'),
    'set_sample_rate': ('track_data+beat_data', {'sample_rate'}, 'sample rate is stored in both blobs'),
    'set_waveform': ('overview_waveform_data', {'samples_per_waveform_point', 'waveform_points', 'maximum_point'},
                     'the points, their maximum and the samples-per-point value are the waveform; trailing data '
                     'the decoder accepts is not'),
}


def _field_type(prog, struct, path):
    """Declared (desugared) type of a field path like quick_cues[].color.a."""
    cur = struct
    t = None
    for part in path.replace('[]', '.[]').split('.'):
        if part == '[]':
            m = re.match(r'(?:std::)?vector<(.*)>$', (t or '').replace('class ', '').replace('struct ', ''))
            if not m:
                return None
            t = m.group(1).strip()
            cur = _rec(prog, t)
            continue
        if cur is None:
            return None
        f = [x for x in cur.fields if x.get('name') == part]
        if not f:
            return None
        t = f[0].get('dtype') or f[0].get('type')
        cur = _rec(prog, t)
    return t


def _rec(prog, t):
    t = program.norm_type_name(t or '')
    if t in prog.records:
        return prog.records[t]
    for q, r in prog.records.items():
        if q.endswith('::' + t):
            return r
    return None


def run(tier='quick'):
    prog = program.load()
    cg = callgraph.get(prog)
    chk = Check('C04', tier)
    chk.units = len(prog.tus)
    P1 = chk.rule('P1', 'lossless structure of each 2.x codec: every wire item the decoder consumes is '
                        'stored unchanged in a struct field at least as wide as the wire type, the encoder '
                        'emits exactly that field at the same position with the same byte order, counts '
                        'are container sizes, trailing bytes are captured up to the end and emitted last; '
                        'no constant is substituted, nothing is skipped', floor=5)
    P2 = chk.rule('P2', 'every 2.x track setter that writes a performance blob passes the object it '
                        'obtained from the matching getter in the same call, having assigned only the '
                        'members of its own logical field (an indexed setter only the indexed element)',
                  floor=13)
    chk.assume('inflate(deflate(x)) == x (zlib); the uncompressed payload is what is compared')

    ex = codec.Extractor(prog)
    grams = [g for g in codec.all_grammars(prog) if g[0].startswith('v2 ')]
    if len(grams) != 5:
        raise AnalysisBroken('expected five 2.x codecs, found %d' % len(grams))
    for name, ge, gd in grams:
        chk.analysed(ge.func)
        chk.analysed(gd.func)
        struct = prog.records.get(ge.func.cls)
        problems = []
        if ge.unknown or gd.unknown:
            chk.unknown(P1, name, 'grammar extraction incomplete')
            continue

        def scan(items, side):
            for it in items:
                if it[0] == 'prim':
                    f = it[2]
                    if f.startswith('size(') and is_plain(f[5:-1]):
                        continue
                    if not is_plain(f):
                        problems.append('%s: %s %s is not a struct field (%s) - a decoded value would be '
                                        'dropped or a constant substituted' % (side, it[1], f,
                                                                                'decoder' if side == 'dec' else 'encoder'))
                        continue
                    t = _field_type(prog, struct, f)
                    if t is None:
                        problems.append('%s: type of field %s not found' % (side, f))
                    elif t == 'bool' or t == '_Bool':
                        if (name, f) not in BOOL_EXCEPTION:
                            problems.append('%s: field %s is bool but carries a wire byte (only '
                                            'is_main_cue_adjusted may be normalised)' % (side, f))
                    elif not any(t == w or t.endswith(w) for w in WIRE_TYPES[it[1]]):
                        problems.append('%s: field %s has type %s, wire type is %s' % (side, f, t, it[1]))
                elif it[0] == 'repeat':
                    if not (it[1].startswith('size(') and is_plain(it[1][5:-1])):
                        problems.append('%s: repeat count %s is not a container size' % (side, it[1]))
                    scan(it[2], side)
                elif it[0] == 'alt':
                    problems.append('%s: value-dependent layout (%s): a foreign value outside the '
                                    'alternatives is not preserved' % (side, it[1]))
                elif it[0] == 'skip':
                    problems.append('%s: %d byte(s) skipped' % (side, it[1]))
                elif it[0] == 'bytes':
                    if not is_plain(it[2]):
                        problems.append('%s: byte run into %s' % (side, it[2]))
        scan(ge.items, 'enc')
        scan(gd.items, 'dec')
        # trailing data
        le, ld = ge.items[-1] if ge.items else None, gd.items[-1] if gd.items else None
        if not (le and le[0] == 'bytes' and le[2] == 'extra_data'):
            problems.append('encoder does not emit extra_data last')
        if not (ld and ld[0] == 'bytes' and ld[2] == 'extra_data' and ld[1] == 'rest'):
            problems.append('decoder does not capture the trailing bytes up to the end into extra_data')
        # symmetry incl. byte order
        for l1 in linearise(ge.items):
            msgs = []
            if not any(c03._sym(l1, l2, name, msgs) for l2 in linearise(gd.items)):
                problems.append(msgs[0] if msgs else 'encoder / decoder disagree')
        if ge.framing != gd.framing:
            problems.append('framing differs')
        if problems:
            for p in problems[:4]:
                chk.violation(P1, '%s|%s' % (name, re.sub(r'[^A-Za-z0-9_\[\]. ]', '', p)[:60]),
                              locstr(ge.func.node), '%s: %s' % (name, p))
        else:
            chk.ok(P1, name, locstr(ge.func.node),
                   detail={'items': len(codec.linearise(ge.items)[0])})

    _setters(prog, cg, ex, chk, P2)
    P3 = chk.rule('P3', 'every element a 2.x decoder appends is built from a fresh object in that iteration, so that '
                        're-encoding cannot write bytes of one slot into the next', floor=3)
    from . import c03 as _c03
    _c03.fresh_elements(prog, chk, P3, min_instances=3)
    P4 = chk.rule('P4', 'the whole-track write path (snapshot(), change a field, update()) reads the stored row or its '
                        'blobs before it writes (necessary for keeping the bytes a snapshot cannot carry: trailing data, '
                        'default grid, unknown marker values, flags); how they are merged is not judged', floor=1)
    _whole_update(prog, cg, chk, P4)
    from . import extra
    P5 = chk.rule('P5', 'the decompressor hands the decoders exactly the bytes inflate() produced (sized from the stream\'s '
                        'output counters, or a mismatch with the length prefix is rejected): a result sized from the prefix '
                        'alone gives a foreign blob with an over-stated prefix a zero tail that is kept as trailing data and '
                        'written back', floor=1)
    extra.inflated_length_is_result_length(prog, chk, P5)
    P6 = chk.rule('P6', 'the fixed-width primitives are exact for every value (rule L1 of C02): a rounded or sign-extended '
                        'half changes bytes on re-encode', floor=14)
    extra.primitives_exact(prog, chk, P6)
    return chk.finish('grammar extraction of the five 2.x codecs (encoder and decoder), field-type '
                      'resolution through the struct declarations, alias / member-assignment tracking '
                      'in the 2.x track setters')


BLOBS = ('track_data', 'beat_data', 'quick_cues', 'loops', 'overview_waveform_data')


def _setter_facts(prog, cg, ex, f, depth=0):
    """-> list of (blob, call node, source, assigned member set, whole-object assignment?)"""
    out = []
    tu = f.tu
    got = {}          # var id -> blob it was read from via track_.get_<blob>
    assigned = {}     # var id -> set of member paths assigned
    whole = set()     # var ids assigned as a whole after initialisation
    idx_params = {p['id'] for p in f.params if (p.get('type') or '') in ('int', 'int32_t', 'size_t')}
    for n in walk(f.body):
        k = n.get('kind')
        if k == 'VarDecl':
            init = [x for x in children(n) if not x['kind'].endswith('Attr')]
            if init:
                for x in walk(init[-1]):
                    if x.get('kind') == 'CXXMemberCallExpr':
                        nm = strip(children(x)[0]).get('name') or ''
                        if nm.startswith('get_') and nm[4:] in BLOBS and \
                                'track_table' in (strip(children(strip(children(x)[0]))[0]).get('type') or ''):
                            got[n['id']] = nm[4:]
                        break
        elif k in ('BinaryOperator', 'CXXOperatorCallExpr'):
            if k == 'BinaryOperator' and n.get('opcode') != '=':
                continue
            c = children(n)
            if k == 'CXXOperatorCallExpr':
                if (strip(c[0]).get('referencedDecl') or {}).get('name') != 'operator=':
                    continue
                lhs = c[1]
            else:
                lhs = c[0]
            base, path = _lhs_path(lhs, idx_params)
            if base is None:
                continue
            if path == '':
                whole.add(base)
            else:
                assigned.setdefault(base, set()).add(path)
    for n in walk(f.body):
        if n.get('kind') != 'CXXMemberCallExpr':
            continue
        callee = strip(children(n)[0])
        nm = callee.get('name') or ''
        recv = strip(children(callee)[0]) if children(callee) else {}
        if nm.startswith('set_') and nm[4:] in BLOBS and 'track_table' in (recv.get('type') or ''):
            arg = strip(children(n)[2], explicit=True) if len(children(n)) > 2 else {}
            while arg.get('kind') in ('CXXConstructExpr',) and len(children(arg)) == 1:
                arg = strip(children(arg)[0], explicit=True)
            if arg.get('kind') == 'CallExpr' and (strip(children(arg)[0]).get('referencedDecl') or {}).get('name') == 'move':
                arg = strip(children(arg)[1], explicit=True)
            vid = (arg.get('referencedDecl') or {}).get('id') if arg.get('kind') == 'DeclRefExpr' else None
            out.append({'blob': nm[4:], 'node': n, 'from': got.get(vid), 'var': (arg.get('referencedDecl') or {}).get('name'),
                        'assigned': assigned.get(vid, set()), 'whole': vid in whole, 'func': f})
        elif recv.get('kind') == 'CXXThisExpr' and nm.startswith('set_') and depth == 0:
            # a setter implemented through a sibling setter of the same class
            for t in (cg.edge_for(f, n).targets if cg.edge_for(f, n) else []):
                for fact in _setter_facts(prog, cg, ex, t, depth + 1):
                    fact = dict(fact)
                    fact['via'] = t.name
                    out.append(fact)
    return out


def _lhs_path(lhs, idx_params):
    """x.member / x.member[index] / x  ->  (var id, 'member' | 'member[i]' | 'member[?]' | '')"""
    n = strip(lhs, explicit=True)
    parts = []
    while True:
        k = n.get('kind')
        if k == 'MemberExpr':
            parts.append(n.get('name'))
            n = strip(children(n)[0], explicit=True)
        elif k == 'CXXOperatorCallExpr' and (strip(children(n)[0]).get('referencedDecl') or {}).get('name') == 'operator[]':
            idx = strip(children(n)[2], explicit=True)
            is_param = idx.get('kind') == 'DeclRefExpr' and (idx.get('referencedDecl') or {}).get('id') in idx_params
            parts.append('[i]' if is_param else '[?]')
            n = strip(children(n)[1], explicit=True)
        elif k == 'ArraySubscriptExpr':
            parts.append('[?]')
            n = strip(children(n)[0], explicit=True)
        elif k == 'DeclRefExpr':
            parts.reverse()
            path = ''
            for p in parts:
                path += p if p.startswith('[') else (('.' if path else '') + p)
            return (n.get('referencedDecl') or {}).get('id'), path
        else:
            return None, None


def _whole_update(prog, cg, chk, P4):
    """Necessary condition only: to keep the bytes of the stored blobs that a snapshot cannot carry, update() has to
    read them - some path from update() to track_table::update must pass a call of track_table::get /
    get_<blob>.  How the bytes are merged is not judged."""
    f = prog.func(V2 + 'track_impl::update')
    chk.analysed(f)
    reach = cg.reachable([f], stop=lambda g: not prog.in_repo(g.file) or g.cls == V2 + 'track_table')
    reads, writes = [], []
    for key, (g, _, _) in reach.items():
        if g.body is None or g.cls == V2 + 'track_table':
            continue
        for n in walk(g.body):
            if n.get('kind') != 'CXXMemberCallExpr':
                continue
            callee = strip(children(n)[0])
            recv = strip(children(callee)[0]) if children(callee) else {}
            if 'track_table' not in (recv.get('type') or ''):
                continue
            nm = callee.get('name') or ''
            if nm == 'get' or (nm.startswith('get_') and nm[4:] in BLOBS):
                reads.append((g, n, nm))
            if nm == 'update':
                writes.append((g, n))
    if not writes:
        raise AnalysisBroken('P4: v2::track_impl::update no longer reaches track_table::update')
    for g, n in writes:
        inst = '%s -> track_table::update' % g.qualname.replace('djinterop::engine::', '')
        if reads:
            chk.ok(P4, inst + ' after reading the stored row (%s at %s)' % (reads[0][2], locstr(reads[0][1])), locstr(n))
        else:
            chk.violation(P4, 'v2::track_impl::update|stored blobs never read', locstr(n),
                          '%s: nothing on the way reads the stored row or any of its blobs (track_table::get / '
                          'get_<blob>): the five performance blobs are re-encoded from the snapshot alone, so trailing '
                          'data, the default beat grid, marker unknown values, the mid / high loudness bands, the '
                          'default main cue and loop flags of the stored blobs are replaced although only one field '
                          'changed' % inst)


def _setters(prog, cg, ex, chk, P2):
    cls = V2 + 'track_impl'
    n_sites = 0
    seen_methods = set()
    for f in sorted(prog.functions.values(), key=lambda x: x.line):
        if f.cls != cls or f.body is None or not f.name.startswith('set_'):
            continue
        facts = _setter_facts(prog, cg, ex, f)
        if not facts:
            continue
        seen_methods.add(f.name)
        chk.analysed(f)
        intent = INTENDED.get(f.name)
        if intent is None:
            chk.unknown(P2, f.qualname, 'setter writes a performance blob but has no entry in the '
                                        'intended-member table: classify it first')
            continue
        blobs, members, reason = intent
        for fact in facts:
            n_sites += 1
            inst = '%s -> set_%s(%s)' % (f.name, fact['blob'], fact['var'])
            where = locstr(fact['node'])
            if fact['blob'] not in blobs.split('+'):
                chk.violation(P2, 'v2::track_impl::%s|writes %s' % (f.name, fact['blob']), where,
                              '%s writes blob %s, which is not part of its logical field (%s)' % (
                                  f.name, fact['blob'], reason))
                continue
            if '*' in members:
                chk.ok(P2, inst + ' (whole blob is the field)', where)
                continue
            if fact['from'] != fact['blob'] or fact['whole']:
                chk.violation(P2, 'v2::track_impl::%s|%s not read-modify-write' % (f.name, fact['blob']), where,
                              '%s passes %s to set_%s, which %s: every byte of the stored blob outside '
                              'the field (trailing data, other members) is replaced' % (
                                  f.name, fact['var'] or 'a fresh object', fact['blob'],
                                  'was not obtained from get_%s in this call' % fact['blob']
                                  if fact['from'] != fact['blob'] else 'is overwritten as a whole'),
                              facts={'assigned_members': sorted(fact['assigned'])})
                continue
            extra = {m for m in fact['assigned'] if m not in members and m.split('.')[0] not in members}
            if extra:
                chk.violation(P2, 'v2::track_impl::%s|assigns %s' % (f.name, ','.join(sorted(extra))), where,
                              '%s%s assigns %s of the %s blob; its logical field is %s (%s): the other '
                              'members are bytes of other fields' % (
                                  f.name, ' (through %s)' % fact['via'] if fact.get('via') else '',
                                  sorted(extra), fact['blob'], sorted(members), reason))
            else:
                chk.ok(P2, inst + ' assigns %s' % sorted(fact['assigned']), where)
    missing = set(INTENDED) - seen_methods
    if missing:
        chk.fail_broken('P2: setters %s of the intended-member table no longer write a blob: table out '
                        'of date' % sorted(missing))
