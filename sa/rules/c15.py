"""C15  No public call has undefined behaviour, whatever its arguments (enumerated UB classes).

U1  operator* / operator-> on a std::optional only under a dominating engaged-test
U2  operator[] on vector / array / string only with an index proved inside the container
U3  an iterator obtained from find / find_if is dereferenced or moved only under a dominating
    comparison with end() / begin()
U6  an integer division / modulo only with a divisor proved non-zero after any conversion
U7  every throw in the library throws a type derived from std::exception; noexcept functions
    throw nothing
U8  handle contract: id(), copy, assignment and destruction of track / crate / database touch no
    database; is_valid() is a counting / existence query
U9  recursion: every recursive function descends along a relation that the forest rules keep acyclic
"""
import re

from .. import program, callgraph, effects, guards
from ..frontend import AnalysisBroken
from ..program import children, strip, walk, locstr, literal_value
from ..report import Check
from .c05 import derives_from_std_exception


def _short(q):
    return (q or '').replace('djinterop::engine::', '').replace('djinterop::', '')


def _functions(prog):
    for f in sorted(prog.functions.values(), key=lambda x: (x.file, x.line)):
        if f.body is None or f.is_pattern or '/schema/' in (f.file or ''):
            continue
        yield f


def _optional_type(n):
    t = (strip(n).get('dtype') or strip(n).get('type') or '')
    t = t.replace('const ', '').strip()
    return t.startswith('std::optional<') or t.startswith('optional<')


def _fact_strs(facts):
    return {f for f in facts if isinstance(f, str)}


def _bounds(facts):
    return [f for f in facts if isinstance(f, tuple) and f[0] == 'B']


def _unsigned(n):
    t = (strip(n).get('dtype') or strip(n).get('type') or '')
    return 'unsigned' in t or 'size_t' in t or 'size_type' in t


_TYPE_BITS = {'long': (64, True), 'long long': (64, True), 'int64_t': (64, True), 'unsigned long': (64, False),
              'unsigned long long': (64, False), 'uint64_t': (64, False), 'size_t': (64, False),
              'int': (32, True), 'int32_t': (32, True), 'unsigned int': (32, False), 'uint32_t': (32, False),
              'short': (16, True), 'int16_t': (16, True), 'unsigned short': (16, False), 'uint16_t': (16, False),
              'signed char': (8, True), 'int8_t': (8, True), 'unsigned char': (8, False), 'uint8_t': (8, False),
              'char': (8, True)}


def _tb(t):
    t = (t or '').replace('const ', '').replace('std::', '').strip()
    return _TYPE_BITS.get(t)


def pointer_origin(a, func, depth=0):
    """Where a pointer handed to memcpy / memmove / memcmp comes from, as far as the expression says:
       ('object', text)   the address of a named object (&x, &x.m, an array decaying to a pointer, this): never null
       ('data', receiver) data() of a vector / string: null when the container is empty and never allocated
       None               anything else (a pointer held in a parameter or computed): not decided by U10
    A pointer held in a local that is initialised once and never assigned is judged by its initialiser."""
    x = a
    while isinstance(x, dict):
        k = x.get('kind')
        if k == 'ImplicitCastExpr' and x.get('castKind') == 'ArrayToPointerDecay' and children(x):
            y = strip(children(x)[0], explicit=True)
            if y.get('kind') in ('DeclRefExpr', 'MemberExpr'):
                return 'object', 'the array ' + (guards.canon(y) or '?').split(':')[-1]
            return None
        if k in ('CXXReinterpretCastExpr', 'CStyleCastExpr', 'CXXStaticCastExpr', 'ImplicitCastExpr', 'ParenExpr',
                 'CXXConstCastExpr', 'ExprWithCleanups', 'MaterializeTemporaryExpr') and len(children(x)) == 1:
            x = children(x)[0]
            continue
        break
    if not isinstance(x, dict):
        return None
    k = x.get('kind')
    if k == 'CXXThisExpr':
        return 'object', '*this'
    if k == 'UnaryOperator' and x.get('opcode') == '&' and children(x):
        y = children(x)[0]
        while y.get('kind') == 'ParenExpr' and children(y):
            y = children(y)[0]
        if y.get('kind') in ('DeclRefExpr', 'MemberExpr'):
            rk = (y.get('referencedDecl') or {}).get('kind')
            if y.get('kind') == 'MemberExpr' or rk in ('VarDecl', 'ParmVarDecl', 'BindingDecl'):
                return 'object', (guards.canon(y) or '?').split(':')[-1]
        return None
    if k == 'CXXMemberCallExpr' and children(x):
        callee = strip(children(x)[0])
        if callee.get('name') != 'data' or not children(callee) or len(children(x)) != 1:
            return None
        recv = children(callee)[0]
        rt = strip(recv).get('type') or ''
        if 'vector' not in rt and 'basic_string' not in rt and 'string' not in rt:
            return None
        return 'data', recv
    if k == 'DeclRefExpr' and depth < 3 and '*' in (x.get('type') or ''):
        from ..program import single_assignment_locals
        init = single_assignment_locals(func.node).get((x.get('referencedDecl') or {}).get('id'))
        if init is not None:
            r = pointer_origin(init, func, depth + 1)
            # data() held in a local: the container has to be known non-empty where the pointer is used (a test
            # between the two, with no change of the container after it, says the same of the moment data() ran)
            if r is not None:
                return r
    return None


def float_cast_in_range(n, facts):
    """n: a FloatingToIntegral cast node -> (proved?, text)."""
    tgt = n.get('dtype') or n.get('type') or ''
    tb = _tb(tgt)
    src = strip(children(n)[0], explicit=True)
    # ceil / floor / round / trunc of x stay inside any integer range that bounds x
    while src.get('kind') == 'CallExpr' and len(children(src)) == 2 and \
            (strip(children(src)[0]).get('referencedDecl') or {}).get('name') in ('ceil', 'floor', 'round', 'trunc'):
        src = strip(children(src)[1], explicit=True)
    lit = literal_value(src)
    p = guards.canon(src)
    what = '(%s)%s' % (tgt, (p or src.get('kind') or '?').split(':')[-1])
    if tb is None:
        return False, what + ' - target type outside the modelled integer types'
    bits, signed = tb
    lo_v = -(2 ** (bits - 1)) if signed else 0
    hi_v = 2 ** (bits - 1) - 1 if signed else 2 ** bits - 1
    if isinstance(lit, (int, float)) and not isinstance(lit, bool):
        return (lo_v <= lit <= hi_v), what + ' - literal operand'
    if p is None:
        return False, what + ' - operand is not a variable with a dominating range test'
    B = [f for f in facts if isinstance(f, tuple) and f[0] == 'B' and f[1] == p]

    def limit(b, which):
        m = re.match(r'^limit\.(min|max)<(.*)>$', b)
        if not m or m.group(1) != which:
            return None
        return _tb(m.group(2))
    lower = upper = False
    for (_, a, op, b) in B:
        if op in ('>', '>='):
            l = limit(b, 'min')
            if l and l[0] <= bits and (l[1] == signed or not l[1]):
                lower = True
            elif re.match(r'^-?\d+$', b) and int(b) >= lo_v - (1 if op == '>' else 0):
                lower = True
        if op in ('<', '<='):
            l = limit(b, 'max')
            # the limit of a 64-bit type is not a double: 2^63 (2^64) is the nearest, so only '<' is safe there
            if l and (l[0] < bits or (l[0] == bits and l[1] == signed)) and (op == '<' or l[0] <= 32):
                upper = True
            elif re.match(r'^-?\d+$', b) and int(b) <= hi_v and abs(int(b)) < 2 ** 53:
                upper = True
    nan_free = ('ORD:' + p) in facts
    if lower and upper and nan_free:
        return True, what + ' - both limits tested'
    missing = [w for w, ok in (('lower limit', lower), ('upper limit', upper), ('a comparison that excludes NaN', nan_free))
               if not ok]
    return False, what + ' - no dominating test of ' + ', '.join(missing)


def index_in_bounds(idx, cont, facts, prog, func):
    """-> (proved?, reason).  idx / cont are expression nodes."""
    r = _index_in_bounds(idx, cont, facts, prog, func)
    if r[0] is not True:
        # the index held in a named, never reassigned local: judge the expression it names
        e = strip(idx, explicit=True)
        if e.get('kind') == 'DeclRefExpr':
            from ..program import single_assignment_locals
            init = single_assignment_locals(func.node).get((e.get('referencedDecl') or {}).get('id'))
            if init is not None and strip(init, explicit=True).get('kind') != 'DeclRefExpr':
                r2 = _index_in_bounds(init, cont, facts, prog, func)
                if r2[0] is True:
                    return r2
    return r


def _index_in_bounds(idx, cont, facts, prog, func):
    cp = guards.canon(cont)
    if cp is None:
        return None, 'container expression outside the modelled subset'
    size = cp + '.size()'
    B = _bounds(facts)
    lit = literal_value(idx)
    ip = guards.canon(idx)

    def size_at_least(k):
        for (_, a, op, b) in B:
            if a == size and b.lstrip('-').isdigit():
                v = int(b)
                if (op == '>' and v >= k - 1) or (op == '>=' and v >= k) or (op == '==' and v >= k):
                    return True
            if b == size and a.lstrip('-').isdigit():
                v = int(a)
                if (op == '<' and v >= k - 1) or (op == '<=' and v >= k):
                    return True
        return False
    if isinstance(lit, int) and not isinstance(lit, bool):
        if lit < 0:
            return False, 'negative literal index'
        if size_at_least(lit + 1):
            return True, 'size() > %d on every path' % lit
        n_call = _callers_min_size(prog, func, cont)
        if n_call is not None and n_call[0] >= lit + 1:
            return True, 'parameter of an internal function: each of its %d call sites passes a buffer ' \
                         'allocated with at least %d element(s)' % (n_call[1], n_call[0])
        return False, 'no dominating test gives size() > %d' % lit
    if ip is not None:
        upper = any(a == ip and op == '<' and b == size for (_, a, op, b) in B) or \
            any(a == ip and op in ('<', '<=') and b.isdigit() and size_at_least(int(b) + (1 if op == '<=' else 0))
                for (_, a, op, b) in B)
        if not upper and _unsigned(idx) and _loop_starts_at(func, ip, 0):
            # for (i = L; i + k < size(); ++i): i only grows from a literal, so i + k never wraps and i < size()
            upper = any(re.match(r'^%s\+\d+$' % re.escape(ip), a) and op == '<' and b == size for (_, a, op, b) in B)
        lower = _unsigned(idx) or any(a == ip and ((op == '>=' and b.lstrip('-').isdigit() and int(b) >= 0) or
                                                   (op == '>' and b.lstrip('-').isdigit() and int(b) >= -1))
                                      for (_, a, op, b) in B)
        al = _alias_size_minus(func, ip)
        if al is not None and al >= 1 and size_at_least(al):
            return True, 'index is size() - %d and size() >= %d' % (al, al)
        # p + k  with  p < size() - k  and  p < size()
        m = re.match(r'^(.*)\+(\d+)$', ip)
        if m and _unsigned(idx):
            base, k = m.group(1), int(m.group(2))
            if any(a == base and op == '<' and b == '%s-%d' % (size, k) for (_, a, op, b) in B) and \
                    any(a == base and op == '<' and b == size for (_, a, op, b) in B):
                return True, 'index p + %d with p < size() - %d' % (k, k)
        # p - k  with  p != 0 (k == 1) or p >= k, and p < size()
        m = re.match(r'^(.*)-(\d+)$', ip)
        if m:
            base, k = m.group(1), int(m.group(2))
            lower_ok = any(a == base and ((op == '!=' and b == '0' and k == 1) or (op == '>=' and b.isdigit() and int(b) >= k) or
                                          (op == '>' and b.isdigit() and int(b) >= k - 1)) for (_, a, op, b) in B)
            upper_ok = any(a == base and op == '<' and b == size for (_, a, op, b) in B)
            if not lower_ok and _loop_starts_at(func, base, k):
                lower_ok = True     # for (i = L; ...; ++i) with L >= k and i never decreased
            al2 = _alias_size_minus(func, base)
            if al2 is not None and size_at_least(al2 + k):
                return True, 'index is size() - %d and size() >= %d' % (al2 + k, al2 + k)
            if lower_ok and upper_ok:
                return True, 'index p - %d with p >= %d and p < size()' % (k, k)
        if upper and lower:
            return True, 'index < size() and index >= 0 on every path'
        if not upper:
            weak = [(a, op, b) for (_, a, op, b) in B if a == ip and b == size]
            return False, 'no dominating test gives %s < size()%s' % (
                ip.split(':')[-1], (' (only %s)' % ', '.join('%s %s size()' % (a.split(':')[-1], op) for a, op, b in weak)) if weak else '')
        return False, 'the signed index is not tested against 0'
    e = strip(idx, explicit=True)
    if e.get('kind') == 'BinaryOperator' and e.get('opcode') == '-':
        a, b = children(e)
        k = literal_value(b)
        pa = guards.canon(a)
        al = _alias_size_minus(func, pa)
        if al is not None and isinstance(k, int) and size_at_least(al + k + 1):
            return True, 'size() - %d with size() >= %d' % (al + k, al + k + 1)
    ok = _ratio_idiom(e, size, B, prog, func)
    if ok is not None:
        return ok
    return None, 'index expression outside the modelled subset'


def _loop_starts_at(func, path, k):
    """path names the control variable of a for loop that starts at a literal >= k and is only
    ever incremented inside the loop."""
    m = re.match(r'^#(0x[0-9a-f]+):', path or '')
    if not m or func.body is None:
        return False
    vid = m.group(1)
    for lp in walk(func.body):
        if lp.get('kind') != 'ForStmt':
            continue
        c = lp.get('inner', [])
        if not c:
            continue
        decl = None
        for x in walk(c[0]):
            if x.get('kind') == 'VarDecl' and x.get('id') == vid:
                decl = x
        if decl is None:
            continue
        init = [y for y in children(decl) if not y['kind'].endswith('Attr')]
        lit = literal_value(strip(init[-1], explicit=True)) if init else None
        if not isinstance(lit, int) or isinstance(lit, bool) or lit < k:
            return False
        for x in walk(lp):
            kk = x.get('kind')
            if kk == 'UnaryOperator' and x.get('opcode') == '--' and \
                    (strip(children(x)[0]).get('referencedDecl') or {}).get('id') == vid:
                return False
            if kk in ('BinaryOperator', 'CompoundAssignOperator') and (x.get('opcode') or '') in ('=', '-=', '*=', '/=') and \
                    (strip(children(x)[0]).get('referencedDecl') or {}).get('id') == vid:
                return False
        return True
    return False


def _alias_size_minus(func, path):
    """local `last = size() - k` -> k (looked up through its initialiser)."""
    if path is None:
        return None
    m = re.match(r'#(0x[0-9a-f]+):', path)
    if not m:
        return None
    for n in walk(func.body):
        if n.get('kind') == 'VarDecl' and n.get('id') == m.group(1):
            init = [x for x in children(n) if not x['kind'].endswith('Attr') and not x['kind'].endswith('Comment')]
            if init:
                e = strip(init[-1], explicit=True)
                if e.get('kind') == 'BinaryOperator' and e.get('opcode') == '-':
                    a, b = children(e)
                    pa = guards.canon(a)
                    k = literal_value(b)
                    if pa and pa.endswith('.size()') and isinstance(k, int):
                        return k
    return None


def _ratio_idiom(e, size, B, prog, func):
    if e.get('kind') != 'BinaryOperator' or e.get('opcode') != '/':
        return None
    num, den = [strip(x, explicit=True) for x in children(e)]
    if num.get('kind') != 'BinaryOperator' or num.get('opcode') != '*':
        return None
    a, b = children(num)
    if guards.canon(a) != size:
        a, b = b, a
    if guards.canon(a) != size:
        return None
    bb = strip(b, explicit=True)
    if not (bb.get('kind') == 'BinaryOperator' and bb.get('opcode') == '+' and literal_value(children(bb)[1]) == 1):
        return None
    m = strip(children(bb)[0], explicit=True)
    if not (m.get('kind') == 'BinaryOperator' and m.get('opcode') == '*' and literal_value(children(m)[0]) == 2):
        return None
    i = guards.canon(children(m)[1])
    if i is None or not _unsigned(children(m)[1]):
        return None
    bounds = [b2 for (_, a2, op, b2) in B if a2 == i and op == '<']
    dl = literal_value(den)
    if dl is None or isinstance(dl, bool):
        dl = const_value(den, func)
    for E in bounds:
        if den.get('kind') == 'BinaryOperator' and den.get('opcode') == '*' and literal_value(children(den)[0]) == 2 \
                and guards.canon(children(den)[1]) == E:
            return True, 'size() * (2i+1) / (2E) with i < E: the factor is below 1'
        if isinstance(dl, int):
            vals = _field_value_set(prog, func, E)
            if vals is not None and all(2 * v <= dl for v in vals):
                return True, 'size() * (2i+1) / %d with i < E, E in %s' % (dl, sorted(vals))
    return False, 'size() * (2i+1) / D: no loop bound i < E with 2E <= D found'


def _field_value_set(prog, func, path):
    """Constant values a member like extents.size can take, from the return statements of the
    function that produced the object (aggregate returns with literal / named-constant elements)."""
    m = re.match(r'#(0x[0-9a-f]+):(\w+)\.(\w+)$', path or '')
    if not m:
        return None
    vid, _, field = m.groups()
    for n in walk(func.body):
        if n.get('kind') == 'VarDecl' and n.get('id') == vid:
            init = [x for x in children(n) if not x['kind'].endswith('Attr') and not x['kind'].endswith('Comment')]
            if not init:
                return None
            call = None
            for x in walk(init[-1]):
                if x.get('kind') == 'CallExpr':
                    call = x
                    break
            if call is None:
                return None
            d, qn, virt, recv = prog.resolve_callee(func.tu, call)
            defs = prog.definitions_for(func.tu, d, qn) if d is not None else []
            seen = 0
            while len(defs) == 1 and seen < 3:
                g = defs[0]
                rets = [r for r in walk(g.body) if r.get('kind') == 'ReturnStmt']
                if len(rets) == 1:
                    inner = [x for x in walk(rets[0]) if x.get('kind') == 'CallExpr']
                    if inner:
                        d2, qn2, _, _ = prog.resolve_callee(g.tu, inner[0])
                        defs2 = prog.definitions_for(g.tu, d2, qn2) if d2 is not None else []
                        if len(defs2) == 1 and defs2[0] is not g:
                            defs = defs2
                            seen += 1
                            continue
                rec = prog.records.get(callgraph.get(prog).record_of_type(g.ret) or '')
                if rec is None:
                    return None
                names = [f.get('name') for f in rec.fields]
                if field not in names:
                    return None
                pos = names.index(field)
                vals = set()
                for r in rets:
                    il = [x for x in walk(r) if x.get('kind') == 'InitListExpr']
                    if not il:
                        return None
                    args = children(il[0])
                    if pos >= len(args):
                        return None
                    v = literal_value(args[pos])
                    if v is None:
                        a = strip(args[pos], explicit=True)
                        ref = a.get('referencedDecl') or {}
                        for q, cv in prog.consts.items():
                            if q.endswith('::' + (ref.get('name') or '?')):
                                v = cv
                    if not isinstance(v, int):
                        return None
                    vals.add(v)
                return vals
            return None
    return None


def const_value(e, func, depth=0):
    """Value of an integer constant expression: a literal, a constexpr / const variable with such an initialiser
    (local or namespace scope), sums / products / quotients of those.  None otherwise."""
    x = strip(e, explicit=True)
    v = literal_value(x)
    if isinstance(v, (int, float)) and not isinstance(v, bool):
        return v
    if depth > 5:
        return None
    k = x.get('kind')
    if k == 'DeclRefExpr':
        d = func.tu.ids.get((x.get('referencedDecl') or {}).get('id'))
        if d is not None and d.get('kind') == 'VarDecl' and (d.get('constexpr') or 'const' in (d.get('type') or '')):
            init = [y for y in children(d) if not y['kind'].endswith('Attr') and not y['kind'].endswith('Comment')]
            if init:
                return const_value(init[-1], func, depth + 1)
        return None
    if k == 'BinaryOperator' and x.get('opcode') in ('*', '+', '-', '/'):
        a, b = (const_value(c, func, depth + 1) for c in children(x))
        if a is None or b is None:
            return None
        op = x['opcode']
        if op == '*':
            return a * b
        if op == '+':
            return a + b
        if op == '-':
            return a - b
        if op == '/' and b != 0:
            return a // b if isinstance(a, int) and isinstance(b, int) else a / b
    if k in ('ConstantExpr', 'ParenExpr') and children(x):
        return const_value(children(x)[0], func, depth + 1)
    return None


def divisor_nonzero(div, facts, func):
    """-> (proved?, reason)."""
    lit = literal_value(div)
    if lit is None or isinstance(lit, bool):
        lit = const_value(div, func)
    if isinstance(lit, (int, float)) and not isinstance(lit, bool):
        return (lit != 0), 'constant divisor %s' % lit
    raw = strip(div)
    cast_from_float = guards.float_to_int_cast(div)
    p = guards.canon(div)
    F = _fact_strs(facts)
    if p and cast_from_float and ('NZI:' + p) in F:
        return True, 'the truncated integer value is tested non-zero on every path'
    if p and ('NZ:' + p) in F:
        if cast_from_float:
            return False, 'the guard tests the floating value, the divisor is its truncation to an integer: a ' \
                          'value in (-1, 1) passes the test and truncates to 0'
        return True, 'divisor tested non-zero on every path'
    e = strip(div, explicit=True)
    if e.get('kind') == 'BinaryOperator' and e.get('opcode') == '*':
        a, b = children(e)
        ra = divisor_nonzero(a, facts, func)
        rb = divisor_nonzero(b, facts, func)
        if ra[0] and rb[0]:
            return True, 'product of non-zero factors'
    if p:
        for f in facts:
            if isinstance(f, tuple) and f[2] == '<' and f[3] == p:
                return True, 'an unsigned value is below the divisor on this path'
            if isinstance(f, tuple) and f[1] == p and ((f[2] == '>' and f[3].lstrip('-').isdigit() and int(f[3]) >= 0) or
                                                         (f[2] == '>=' and f[3].isdigit() and int(f[3]) >= 1)):
                return True, 'divisor tested positive'
            if isinstance(f, tuple) and f[1] == p and f[2] == '!=' and f[3] == '0':
                return True, 'divisor tested non-zero'
        return False, 'no dominating test shows %s != 0' % p.split(':')[-1]
    return None, 'divisor expression outside the modelled subset'


def division_in_range(n, facts, func):
    """Signed integer division overflows (undefined behaviour, SIGFPE on x86) for MIN / -1.  Proved
    impossible when the divisor cannot be -1 (literal, tested positive, unsigned before conversion)
    or the dividend cannot be the minimum (literal, unsigned and narrower before conversion, tested
    non-negative).  -> (proved?, reason)"""
    t = (n.get('type') or '')
    if 'unsigned' in t or t in ('size_t', 'uint64_t', 'uint32_t', 'std::size_t', 'unsigned long', 'unsigned long long',
                                'uint8_t', 'uint16_t', 'unsigned int', 'std::vector::size_type') or 'size_type' in t:
        return True, 'unsigned division'
    a, b = children(n)
    lb = literal_value(b)
    if lb is None or isinstance(lb, bool):
        lb = const_value(b, func)
    if isinstance(lb, (int, float)) and not isinstance(lb, bool):
        return (lb != -1), 'constant divisor %s' % lb

    def pre_cast_type(e):
        x = strip(e) if e.get('kind') == 'ParenExpr' else e
        while isinstance(x, dict) and x.get('kind') in ('CXXStaticCastExpr', 'CStyleCastExpr', 'CXXFunctionalCastExpr',
                                                          'ImplicitCastExpr', 'ParenExpr') and children(x):
            x = children(x)[0]
        return (x.get('type') or '')
    tb = pre_cast_type(b)
    if 'unsigned' in tb or 'size_t' in tb or 'size_type' in tb or 'uint' in tb:
        return True, 'the divisor is unsigned before conversion'
    pb = guards.canon(b)
    if pb:
        for f in facts:
            if isinstance(f, tuple) and f[1] == pb and ((f[2] == '>' and f[3].lstrip('-').isdigit() and int(f[3]) >= -1) or
                                                         (f[2] == '>=' and f[3].lstrip('-').isdigit() and int(f[3]) >= 0)):
                return True, 'divisor tested greater than -1'
    la = literal_value(a)
    if isinstance(la, (int, float)) and not isinstance(la, bool):
        return True, 'literal dividend'
    ta = pre_cast_type(a)
    narrow = ('int' == ta.strip() or 'int32_t' in ta or 'uint32_t' in ta or 'unsigned int' in ta or 'short' in ta
              or 'uint8_t' in ta or 'uint16_t' in ta or 'char' in ta or 'bool' in ta)
    wide_result = 'long' in t or 'int64' in t
    if narrow and wide_result:
        return True, 'the dividend is a %s before conversion and cannot be the minimum of %s' % (ta.strip(), t)
    pa = guards.canon(a)
    if pa:
        for f in facts:
            if isinstance(f, tuple) and f[1] == pa and f[2] in ('>', '>=') and f[3].lstrip('-').isdigit() and int(f[3]) >= -1:
                return True, 'dividend tested non-negative'
    return False, 'neither is the divisor shown to differ from -1 nor the dividend from the minimum of %s' % t


def run(tier='quick'):
    prog = program.load()
    cg = callgraph.get(prog)
    eff = effects.Effects(prog, cg)
    chk = Check('C15', tier)
    chk.units = len(prog.tus)
    U1 = chk.rule('U1', 'every operator* / operator-> on a std::optional is dominated by a test that it is '
                        'engaged (if / early throw or return / && / ?: / has_value), or by an assignment of an '
                        'engaged value; assert does not count (NDEBUG)', floor=100)
    U2 = chk.rule('U2', 'every operator[] on a vector / array / string has its index proved inside the container '
                        'by dominating comparisons (literal index: size() > k; variable index: 0 <= i < size(); '
                        'the down-sampling idiom size() * (2i+1) / (2E) with i < E)', floor=30)
    U3 = chk.rule('U3', 'an iterator returned by find / find_if is dereferenced or used in +/- arithmetic only '
                        'under a dominating comparison with end() / begin()', floor=3)
    U5 = chk.rule('U5', 'a local aggregate declared without initialiser (T x;) whose record has scalar members '
                        'lacking default member initialisers has every such member assigned on every path '
                        'before the object is used as a whole (passed, returned, copied, encoded)', floor=3)
    U6 = chk.rule('U6', 'every integer / and % has a divisor proved non-zero after any conversion to integer, and a signed one cannot be MIN / -1', floor=15)
    U7 = chk.rule('U7', 'every throw expression throws a type derived from std::exception and no noexcept '
                        'function contains a throw', floor=150)
    U8 = chk.rule('U8', 'id(), copy construction, assignment and destruction of track / crate / database reach '
                        'no SQL statement; is_valid() issues a single counting / existence query', floor=10)
    U4 = chk.rule('U4', 'no encoder writes past the buffer it allocated: the number of bytes written, as a linear form in '
                        'container sizes and label lengths, equals the size allocated (rule S3 of C03, decided here too)',
                  floor=11)
    from . import c03 as _c03
    from .. import codec as _codec
    _ex = _codec.Extractor(prog)
    for _name, _ge, _gd in _codec.all_grammars(prog):
        if not _ge.unknown:
            _c03.extent(prog, _ex, chk, U4, _name, _ge)
    U10 = chk.rule('U10', 'no null pointer reaches memcpy / memmove / memcmp: each pointer argument whose origin the '
                          'expression shows is either the address of an object (&x, an array, this - never null) or a '
                          'pointer taken from data() of a vector or string, which is passed only where the container is '
                          'known to be non-empty (a null pointer is undefined behaviour there even for length 0)', floor=2)
    U11 = chk.rule('U11', 'every conversion of a floating value to an integer type has its operand proved inside the '
                          'range of the target type: dominating comparisons against both limits, at least one of which '
                          'held as written (so the operand is not a NaN) - a conversion whose truncated value does not '
                          'fit is undefined behaviour; callers use the saturating helper, whose body is the one '
                          'conversion site', floor=2)
    U12 = chk.rule('U12', 'arithmetic on a beat index (beatgrid_marker::index, an int the caller chooses) is carried out in a '
                          'wider type: no +, - or * whose result type is int has such an index as an operand (two indices '
                          'INT_MAX apart, or 4 + INT_MAX, overflow - undefined behaviour)', floor=4)
    U9 = chk.rule('U9', 'every recursive function of the library descends along children() of the crate forest, '
                        'which rules T1 / T2 of C07 keep acyclic', floor=1)
    chk.assume('asserts are compiled out (the shipped build defines NDEBUG); allocation failure surfaces as an '
               'exception; SQLite and zlib honour their contracts')
    chk.note('UB classes not decided: signed overflow outside the '
             'decoders (C05 covers those), data races (the library is documented single-threaded), lifetime of '
             'references held by callers')

    info_single_row = _information_single_row(prog, eff)
    seen = set()
    iter_vars = {}

    call_facts = {}
    pending_u1 = []

    def visit(n, facts, func):
        k = n.get('kind')
        key = (locstr(n), (n.get('loc') or [0, 0, 0, 0])[3] if n.get('loc') else 0, k)
        if k == 'CallExpr':
            call_facts[id(n)] = frozenset(x for x in facts if isinstance(x, str) and x.startswith('E:'))
        if k == 'CallExpr':
            nm = (strip(children(n)[0]).get('referencedDecl') or {}).get('name')
            if nm in ('memcpy', 'memmove', 'memcmp'):
                for ai, a in enumerate(children(n)[1:3]):
                    origin = pointer_origin(a, func)
                    if origin is None:
                        continue
                    if (key, ai) in seen:
                        continue
                    seen.add((key, ai))
                    if origin[0] == 'object':
                        chk.ok(U10, '%s: %s argument %d is the address of %s, an object' % (
                            _short(func.qualname), nm, ai + 1, origin[1]), locstr(n))
                        continue
                    recv = origin[1]
                    p = guards.canon(recv)
                    inst = '%s: %s argument %d is %s.data()' % (_short(func.qualname), nm, ai + 1, (p or '?').split(':')[-1])
                    if p and (('NZ:' + p + '.size()') in facts or ('B', '0', '<', p + '.size()') in facts):
                        chk.ok(U10, inst + ', the container is known to be non-empty', locstr(n))
                    else:
                        chk.violation(U10, '%s|%s(%s.data())' % (_short(func.qualname), nm, (p or '?').split(':')[-1]),
                                      locstr(n),
                                      '%s with no dominating test that the container is non-empty: data() of an empty '
                                      'vector may be a null pointer, and passing a null pointer to %s is undefined '
                                      'behaviour even when the length is 0' % (inst, nm))
        if k in ('BinaryOperator', 'CompoundAssignOperator') and n.get('opcode') in ('+', '-', '*', '+=', '-=', '*='):
            ops = [strip(c_) for c_ in children(n)]
            idx = [o for o in ops if o.get('kind') == 'MemberExpr' and o.get('name') == 'index' and
                   (o.get('type') or '').replace('const ', '').strip() in ('int', 'int32_t') and children(o) and
                   'beatgrid_marker' in (strip(children(o)[0]).get('type') or '')]
            if idx and key not in seen:
                seen.add(key)
                rt = (n.get('type') or '').replace('const ', '').strip()
                ct = (n.get('computeResultType') or rt).replace('const ', '').strip()
                inst = '%s: %s on a beat index computed in %s' % (_short(func.qualname), n.get('opcode'), ct)
                if ct in ('int', 'int32_t'):
                    chk.violation(U12, '%s|beat index arithmetic in int' % _short(func.qualname), locstr(n),
                                  '%s: beat indices are arbitrary ints supplied by the caller; their sum / difference '
                                  'does not fit an int in general (signed overflow is undefined behaviour)' % inst)
                else:
                    chk.ok(U12, inst, locstr(n))
        if n.get('castKind') == 'FloatingToIntegral':
            if key not in seen:
                seen.add(key)
                ok, why = float_cast_in_range(n, facts)
                inst = '%s: %s' % (_short(func.qualname), why)
                if ok:
                    chk.ok(U11, inst, locstr(n))
                else:
                    chk.violation(U11, '%s|%s' % (_short(func.qualname), why.split(' - ')[0]), locstr(n),
                                  '%s at %s: a value outside the range of the target type (or a NaN) makes the '
                                  'conversion undefined behaviour; public setters and snapshots pass arbitrary doubles '
                                  'here' % (inst, locstr(n)))
        if k == 'CXXOperatorCallExpr':
            c = children(n)
            op = (strip(c[0]).get('referencedDecl') or {}).get('name')
            if op in ('operator*', 'operator->') and len(c) > 1 and _optional_type(c[1]):
                if key in seen:
                    return
                seen.add(key)
                p = guards.canon(c[1])
                inst = '%s: %s%s' % (_short(func.qualname), op[8:], (p or '?').split(':')[-1])
                if p and ('E:' + p) in facts:
                    chk.ok(U1, inst, locstr(n))
                elif func.qualname.endswith('information_table::get') and info_single_row:
                    chk.ok(U1, inst + ' (table invariant: Information holds exactly one row - every creator '
                           'inserts one, nothing else inserts or deletes)', locstr(n))
                elif p is None:
                    chk.unknown(U1, inst, 'dereferenced expression outside the modelled subset at %s' % locstr(n))
                else:
                    pend = None
                    if '(anon)' in (func.qualname or '') or (func.storage or '') == 'static':
                        for i_, pr in enumerate(func.params):
                            pc = '#%s:%s' % (pr.get('id'), pr.get('name'))
                            if p == pc or p.startswith(pc + '.') or p.startswith(pc + '!'):
                                pend = (func, i_, p[len(pc):], p, n, inst)
                    if pend is not None:
                        pending_u1.append(pend)     # a file-local helper: its callers may guarantee the value
                    else:
                        chk.violation(U1, '%s|%s' % (_short(func.qualname), p.split(':')[-1]), locstr(n),
                                      '%s dereferences the optional %s with no dominating test that it holds a value: '
                                      'undefined behaviour when it is empty' % (_short(func.qualname), p.split(':')[-1]))
                return
            if op in ('operator*', 'operator->') and len(c) > 1:
                p = guards.canon(c[1])
                if p and (func.key, p) in iter_vars:
                    if key in seen:
                        return
                    seen.add(key)
                    inst = '%s: *%s (result of %s)' % (_short(func.qualname), p.split(':')[-1], iter_vars[(func.key, p)])
                    if ('NE:' + p) in facts:
                        chk.ok(U3, inst, locstr(n))
                    else:
                        chk.violation(U3, '%s|%s' % (_short(func.qualname), p.split(':')[-1]), locstr(n),
                                      '%s dereferences the iterator %s returned by %s without a dominating comparison '
                                      'with end(): undefined behaviour when nothing was found' % (
                                          _short(func.qualname), p.split(':')[-1], iter_vars[(func.key, p)]))
                return
            if op == 'operator[]' and len(c) > 2:
                t = (strip(c[1]).get('dtype') or strip(c[1]).get('type') or '')
                if 'map<' in t or 'unordered_map' in t:
                    return
                if key in seen:
                    return
                seen.add(key)
                ok, why = index_in_bounds(c[2], c[1], facts, prog, func)
                cp = (guards.canon(c[1]) or '?').split(':')[-1]
                inst = '%s: %s[..] - %s' % (_short(func.qualname), cp, why)
                if ok:
                    chk.ok(U2, inst, locstr(n))
                elif ok is None:
                    chk.unknown(U2, inst, why + ' at ' + locstr(n))
                else:
                    idxs = (guards.canon(c[2]) or str(literal_value(c[2]))).split(':')[-1]
                    chk.violation(U2, '%s|%s[%s]' % (_short(func.qualname), cp, idxs), locstr(n),
                                  '%s indexes %s with %s: %s - out-of-bounds access is undefined behaviour' % (
                                      _short(func.qualname), cp, idxs, why))
                return
        if k == 'MemberExpr' and n.get('isArrow'):
            # it->second on a find result
            c = children(n)
            if c:
                p = guards.canon(c[0])
                if p and (func.key, p) in iter_vars:
                    if key in seen:
                        return
                    seen.add(key)
                    inst = '%s: %s-> (result of %s)' % (_short(func.qualname), p.split(':')[-1], iter_vars[(func.key, p)])
                    if ('NE:' + p) in facts:
                        chk.ok(U3, inst, locstr(n))
                    else:
                        chk.violation(U3, '%s|%s' % (_short(func.qualname), p.split(':')[-1]), locstr(n),
                                      '%s dereferences the iterator %s returned by %s without a dominating comparison '
                                      'with end()' % (_short(func.qualname), p.split(':')[-1], iter_vars[(func.key, p)]))
            return
        if k == 'BinaryOperator' and n.get('opcode') in ('/', '%'):
            t = n.get('type') or ''
            if 'double' in t or 'float' in t:
                return
            if key in seen:
                return
            seen.add(key)
            ok, why = divisor_nonzero(children(n)[1], facts, func)
            inst = '%s: %s %s' % (_short(func.qualname), n.get('opcode'), why)
            if ok:
                chk.ok(U6, inst, locstr(n))
            elif ok is None:
                chk.unknown(U6, inst, why + ' at ' + locstr(n))
            else:
                chk.violation(U6, '%s|%s' % (_short(func.qualname), (guards.canon(children(n)[1]) or '?').split(':')[-1]),
                              locstr(n), '%s divides by a value not proved non-zero: %s (integer division by zero '
                              'is undefined behaviour)' % (_short(func.qualname), why))
            ok2, why2 = division_in_range(n, facts, func)
            inst2 = '%s: %s cannot overflow (%s)' % (_short(func.qualname), n.get('opcode'), why2)
            if ok2:
                chk.ok(U6, inst2, locstr(n))
            else:
                chk.violation(U6, '%s|%s MIN over -1' % (_short(func.qualname),
                                                         (guards.canon(children(n)[1]) or '?').split(':')[-1]),
                              locstr(n), '%s: signed division whose quotient can leave its type: %s (MIN / -1 is '
                              'undefined behaviour and traps)' % (_short(func.qualname), why2))
            return
        if k == 'CXXOperatorCallExpr' or (k == 'BinaryOperator' and n.get('opcode') == '-'):
            # iterator arithmetic: it - 1
            c = children(n)
            if k == 'CXXOperatorCallExpr':
                op = (strip(c[0]).get('referencedDecl') or {}).get('name')
                if op != 'operator-' or len(c) != 3:
                    return
                a = c[1]
            else:
                a = c[0]
            p = guards.canon(a)
            if p and (func.key, p) in iter_vars:
                if key in seen:
                    return
                seen.add(key)
                inst = '%s: %s - k (result of %s)' % (_short(func.qualname), p.split(':')[-1], iter_vars[(func.key, p)])
                begins = [f for f in facts if isinstance(f, tuple) and f[1] == p and f[2] == '!=' and f[3].endswith('.begin()')]
                if begins:
                    chk.ok(U3, inst, locstr(n))
                else:
                    chk.violation(U3, '%s|%s-1' % (_short(func.qualname), p.split(':')[-1]), locstr(n),
                                  '%s moves the iterator %s backwards without a dominating test that it is not '
                                  'begin()' % (_short(func.qualname), p.split(':')[-1]))

    for f in _functions(prog):
        chk.analysed(f)
        for n in walk(f.body):
            if n.get('kind') == 'VarDecl':
                init = [x for x in children(n) if not x['kind'].endswith('Attr') and not x['kind'].endswith('Comment')]
                if not init:
                    continue
                e = strip(init[-1], explicit=True)
                nm = None
                if e.get('kind') == 'CallExpr':
                    nm = (strip(children(e)[0]).get('referencedDecl') or {}).get('name')
                elif e.get('kind') == 'CXXMemberCallExpr':
                    nm = strip(children(e)[0]).get('name')
                if nm in ('find', 'find_if', 'lower_bound', 'upper_bound', 'max_element', 'min_element'):
                    iter_vars[(f.key, '#%s:%s' % (n.get('id'), n.get('name')))] = nm
        guards.walk_with_facts(f, visit)

    # optionals that a file-local helper dereferences without a test of its own: every call of the helper must be
    # dominated by the test, on the argument it passes (the precondition lives in the callers)
    callers = {}
    for f in _functions(prog):
        for e in cg.edges(f):
            if e.node.get('kind') == 'CallExpr':
                for t in e.targets:
                    callers.setdefault(t.key, []).append((f, e.node))
    for g, i_, suffix, p, n, inst in pending_u1:
        cs = callers.get(g.key, [])
        bad = None
        for f, c in cs:
            args = children(c)[1:]
            pa = guards.canon(args[i_]) if i_ < len(args) else None
            if pa is None or ('E:' + pa + suffix) not in call_facts.get(id(c), ()):
                bad = (f, c)
                break
        if cs and bad is None:
            chk.ok(U1, inst + ' (file-local helper: each of its %d call(s) is dominated by the test)' % len(cs), locstr(n))
        else:
            chk.violation(U1, '%s|%s' % (_short(g.qualname), p.split(':')[-1]), locstr(n),
                          '%s dereferences the optional %s with no dominating test that it holds a value%s: '
                          'undefined behaviour when it is empty' % (
                              _short(g.qualname), p.split(':')[-1],
                              '' if bad is None else ', and its caller %s at %s does not test it either' % (
                                  _short(bad[0].qualname), locstr(bad[1]))))

    _uninitialised(prog, cg, chk, U5)
    _throws(prog, cg, chk, U7)
    _handle_contract(prog, cg, eff, chk, U8)
    _recursion(prog, cg, chk, U9)
    # the acyclicity U9 relies on: the cycle guards of set_parent (both generations) and, for 1.x, the
    # closure table the guard reads being written in full by every operation that adds or moves a crate
    from . import c07, c11
    c07.cycle_guard(prog, cg, eff, chk, U9)
    c07.cycle_guard_table(prog, cg, eff, chk, U9)
    U13 = chk.rule('U13', 'a handle to a removed track or crate stays invalid: the id of a removed row is never handed out '
                          'again (AUTOINCREMENT id column in every version the creating statement runs on, and no id '
                          'computed from the ids currently stored)', floor=6)
    c07.ids_never_reused(prog, cg, eff, chk, U13, what='crate')
    c07.ids_never_reused(prog, cg, eff, chk, U13, what='track')
    c11.forest_encodings(prog, cg, eff, chk, U9, only=('sub', 'move'), paths=False)
    c07.moved_subtree_closure(prog, cg, eff, chk, U9)
    # 2.x: the closure the guard (and the isPersist triggers) read is defined by the recursive views;
    # every version's copy must be the definition its siblings / the reference dump carry
    from . import c08
    c08.chain_trigger_siblings(prog, chk, U9, tables=(), views=('playlistallchildren', 'playlistallparent'))
    U14 = chk.rule('U14', 'no use after free through a stale pointer: a raw pointer or iterator taken from a growable container '
                          '(v.data(), &v[i], v.begin()) and kept in a local or in a member of a local struct is not used after an '
                          'operation that may reallocate the container (resize, reserve, insert, push_back, ...) unless taken '
                          'again (every function of the library; rule D7 of C05)', floor=20)
    from . import extra
    extra.pointers_fresh(prog, chk, U14, [g for g in prog.functions.values() if g.body is not None and prog.in_repo(g.file)])
    U15 = chk.rule('U15', 'a public call on a locked database terminates: the library installs no busy handler (a callback '
                          'that always asks for another try waits for as long as another connection holds the lock; '
                          'sqlite3_busy_timeout is bounded and accepted)', floor=1)
    extra.no_unbounded_lock_wait(prog, chk, U15)
    return chk.finish('must-fact (dominance) analysis over the structured AST of every function of the library '
                      'outside the schema creators: %d functions; optional dereferences, container indexing, '
                      'iterator uses and integer divisions are obligations discharged by dominating guards' % len(chk.functions_analysed))


def _information_single_row(prog, eff):
    ok = True
    for f in prog.functions.values():
        if f.body is None or f.is_pattern:
            continue
        for s in eff.sites(f):
            st = s.stored_in
            if st is None or (st.table or '').lower() != 'information':
                continue
            if st.kind in ('insert', 'delete') and '/schema/' not in (f.file or ''):
                ok = False
            if st.kind == 'insert' and '/schema/' in (f.file or '') and len(st.rows or []) != 1:
                ok = False
    return ok


def _throws(prog, cg, chk, U7):
    for f in _functions(prog):
        is_noexcept = 'noexcept' in (f.type or '') and 'noexcept(false)' not in (f.type or '')
        for n in walk(f.body):
            if n.get('kind') != 'CXXThrowExpr':
                continue
            c = children(n)
            if not c:
                chk.ok(U7, '%s: rethrow' % _short(f.qualname), locstr(n))
                continue
            t = (strip(c[0]).get('type') or c[0].get('type') or '').replace('const ', '').strip()
            inst = '%s throws %s' % (_short(f.qualname), t)
            if is_noexcept and f.kind != 'CXXDestructorDecl':
                chk.violation(U7, '%s|throw in noexcept' % _short(f.qualname), locstr(n),
                              inst + ' but is declared noexcept: std::terminate')
            elif derives_from_std_exception(prog, t):
                chk.ok(U7, inst, locstr(n))
            else:
                chk.violation(U7, '%s|%s' % (_short(f.qualname), t), locstr(n),
                              inst + ', which does not derive from std::exception')


def _handle_contract(prog, cg, eff, chk, U8):
    for cls, impl in (('djinterop::track', 'djinterop::track_impl'), ('djinterop::crate', 'djinterop::crate_impl'),
                      ('djinterop::database', 'djinterop::database_impl')):
        r = prog.records.get(cls)
        if r is None:
            raise AnalysisBroken('%s not found' % cls)
        roots = []
        for f in prog.functions.values():
            if f.cls != cls or f.is_pattern:
                continue
            if f.kind in ('CXXConstructorDecl', 'CXXDestructorDecl') or f.name in ('operator=', 'id'):
                roots.append(f)
        for f in prog.functions.values():
            if f.cls == impl and (f.kind in ('CXXConstructorDecl', 'CXXDestructorDecl') or f.name == 'id'):
                roots.append(f)
        for f in roots:
            es, reach = eff.transitive([f])
            sql_ = [e for e in es if e.cls != 'fs']
            inst = '%s %s reaches no SQL statement' % (_short(f.qualname), f.type[:40])
            if sql_:
                chk.violation(U8, '%s|touches the database' % _short(f.qualname), locstr(f.node),
                              '%s reaches %s: copying / destroying a handle or asking its id must not depend on '
                              'the row still existing' % (_short(f.qualname), sql_[0].loc))
            else:
                chk.ok(U8, inst, locstr(f.node))
    for qn in ('djinterop::engine::v1::engine_track_impl::is_valid', 'djinterop::engine::v1::engine_crate_impl::is_valid',
               'djinterop::engine::v2::track_impl::is_valid', 'djinterop::engine::v2::crate_impl::is_valid'):
        for f in prog.by_name(qn):
            if f.body is None:
                continue
            es, reach = eff.transitive([f])
            kinds = [(e.cls, (e.stmt.text().upper() if e.stmt is not None else '')) for e in es]
            inst = '%s issues %d read(s)' % (_short(qn), len(kinds))
            if kinds and all(k == 'read' for k, _ in kinds) and any('COUNT' in t or 'EXISTS' in t for _, t in kinds):
                chk.ok(U8, inst + ', a COUNT / EXISTS query', locstr(f.node))
            else:
                chk.violation(U8, '%s|not an existence query' % _short(qn), locstr(f.node),
                              '%s: is_valid() must be a pure counting / existence query (got %s)' % (_short(qn), kinds[:3]))


def _recursion(prog, cg, chk, U9):
    funcs = [f for f in _functions(prog)]
    index = {f.key: f for f in funcs}
    succ = {}
    for f in funcs:
        succ[f.key] = {t.key for e in cg.edges(f) for t in e.targets if t.key in index}
    rec = set()
    for f in funcs:
        seen = set()
        work = list(succ[f.key])
        while work:
            k = work.pop()
            if k == f.key:
                rec.add(f.key)
                break
            if k in seen:
                continue
            seen.add(k)
            work.extend(succ.get(k, ()))
    for k in sorted(rec):
        f = index[k]
        calls = {e.name.split('::')[-1] for e in cg.edges(f) if e.name}
        inst = '%s is recursive' % _short(f.qualname)
        reach_children = 'children' in calls or any(
            'children' in {e.name.split('::')[-1] for e in cg.edges(index[s]) if e.name} for s in succ[k] if s in index)
        if reach_children:
            chk.ok(U9, inst + ', descending along crate::children() (acyclic by C07-T1/T2)', locstr(f.node))
        else:
            chk.violation(U9, '%s|unbounded recursion' % _short(f.qualname), locstr(f.node),
                          inst + ' and does not descend along the crate forest: termination is not established')
    if not rec:
        chk.fail_broken('U9: no recursive function found although update_path is one: the call graph lost it')


def _callers_min_size(prog, func, cont):
    """cont is a parameter of an internal (non-public) function: minimal size over all call
    sites, when every argument is a local vector allocated with a linear size whose constant
    term is positive and whose other coefficients are non-negative.  -> (min size, #sites)."""
    from . import c03
    from .. import codec
    c = strip(cont, explicit=True)
    ref = c.get('referencedDecl') or {}
    if ref.get('kind') != 'ParmVarDecl':
        return None
    pidx = [i for i, p in enumerate(func.params) if p.get('id') == ref.get('id')]
    if not pidx or '/include/' in (func.file or ''):
        return None
    cg = callgraph.get(prog)
    ex = codec.Extractor(prog)
    mins = []
    for f in prog.functions.values():
        if f.body is None or f.is_pattern:
            continue
        for e in cg.edges(f):
            if func not in e.targets or e.node.get('kind') != 'CallExpr':
                continue
            args = children(e.node)[1:]
            if pidx[0] >= len(args):
                return None
            a = strip(args[pidx[0]], explicit=True)
            aref = a.get('referencedDecl') or {}
            decl = None
            for n in walk(f.body):
                if n.get('kind') == 'VarDecl' and n.get('id') == aref.get('id'):
                    decl = n
            if decl is None:
                return None
            init = [x for x in children(decl) if not x['kind'].endswith('Attr') and not x['kind'].endswith('Comment')]
            if not init or strip(init[-1]).get('kind') != 'CXXConstructExpr':
                return None
            cargs = [x for x in children(strip(init[-1])) if x.get('kind') != 'CXXDefaultArgExpr']
            if len(cargs) != 1:
                return None
            lin = c03.AllocEval(ex, f).ev(cargs[0])
            if lin is None or any(v < 0 for k, v in lin.items()):
                return None
            mins.append(lin.get('', 0))
    if not mins:
        return None
    return min(mins), len(mins)


SCALAR = re.compile(r'^(const )?(bool|char|short|int|long|unsigned|signed|float|double|u?int\d+_t|u?int_least\d+_t|size_t|'
                    r'long long|unsigned long long|unsigned long|unsigned int|unsigned char|std::byte)\b')


def _scalar_fields_without_init(prog, rec):
    out = []
    for f in rec.fields:
        t = (f.get('dtype') or f.get('type') or '').strip()
        init = [x for x in children(f) if not x['kind'].endswith('Attr') and not x['kind'].endswith('Comment')]
        if init:
            continue
        if SCALAR.match(t) or t.endswith('*') or t in prog.enums:
            out.append(f.get('name'))
    return out


def _uninitialised(prog, cg, chk, U5):
    for f in _functions(prog):
        cands = {}
        for n in walk(f.body):
            if n.get('kind') != 'VarDecl' or n.get('init') != 'call':
                continue
            rec = cg.record_of_type(n.get('type'))
            if not rec or rec not in prog.records or (n.get('type') or '').rstrip().endswith(('&', '*')):
                continue
            r = prog.records[rec]
            # aggregates only: no user-provided constructor
            if any(m.get('kind') == 'CXXConstructorDecl' and not m.get('isImplicit') for m in r.methods):
                continue
            init = [x for x in children(n) if not x['kind'].endswith('Attr') and not x['kind'].endswith('Comment')]
            if not init or strip(init[-1]).get('kind') != 'CXXConstructExpr' or children(strip(init[-1])):
                continue
            fields = _scalar_fields_without_init(prog, r)
            if fields:
                cands['#%s:%s' % (n.get('id'), n.get('name'))] = (n, rec, fields)
        if not cands:
            continue
        reported = set()
        member_bases = set()
        for x in walk(f.body):
            if x.get('kind') == 'MemberExpr' and children(x):
                b = strip(children(x)[0])
                if b.get('kind') == 'DeclRefExpr':
                    member_bases.add(id(b))
            # the left-hand side of `x = <value>;` is written, not used
            lhs_ = None
            if x.get('kind') == 'BinaryOperator' and x.get('opcode') == '=':
                lhs_ = strip(children(x)[0])
            elif x.get('kind') == 'CXXOperatorCallExpr' and len(children(x)) > 2 and \
                    (strip(children(x)[0]).get('referencedDecl') or {}).get('name') == 'operator=':
                lhs_ = strip(children(x)[1])
            if lhs_ is not None and lhs_.get('kind') == 'DeclRefExpr':
                member_bases.add(id(lhs_))
            # std::tie(obj, cursor) = helper(..): each element of the tie is written as a whole
            if lhs_ is not None and strip(lhs_, explicit=True).get('kind') == 'CallExpr' and \
                    (strip(children(strip(lhs_, explicit=True))[0]).get('referencedDecl') or {}).get('name') == 'tie':
                for a_ in children(strip(lhs_, explicit=True))[1:]:
                    y_ = strip(a_)
                    if y_.get('kind') == 'DeclRefExpr':
                        member_bases.add(id(y_))

        def visit(n, facts, func):
            if n.get('kind') != 'DeclRefExpr' or id(n) in member_bases:
                return
            p = guards.canon(n)
            if p not in cands or p in reported:
                return
            decl, rec, fields = cands[p]
            if ('A:' + p) in facts:
                return
            missing = [fl for fl in fields if ('A:%s.%s' % (p, fl)) not in facts]
            reported.add(p)
            inst = '%s: %s %s used as a whole at %s' % (_short(func.qualname), rec.split('::')[-1], decl.get('name'), locstr(n))
            if missing:
                chk.violation(U5, '%s|%s.%s' % (_short(func.qualname), decl.get('name'), ','.join(missing)), locstr(n),
                              '%s is declared without initialiser and its member(s) %s (no default member '
                              'initialiser) are not assigned on every path before the object is used here: an '
                              'indeterminate value is read' % (inst, missing))
            else:
                chk.ok(U5, inst + ': all scalar members assigned before', locstr(decl))
        guards.walk_with_facts(f, visit)
        for p, (decl, rec, fields) in cands.items():
            if p not in reported:
                chk.ok(U5, '%s: %s %s never used as a whole before its members are set' % (
                    _short(f.qualname), rec.split('::')[-1], decl.get('name')), locstr(decl))
