"""C05  Decoders are safe and terminate on arbitrary bytes.

D1 cursor bounds   D2 wire-integer overflow   D3 buffer addressing
D4 loop progress   D5 zlib status handling    D6 exception types
"""
from .. import program, absint, feval
from ..frontend import AnalysisBroken
from ..program import children, strip, walk, locstr
from ..report import Check

V1 = 'djinterop::engine::v1::'
V2 = 'djinterop::engine::v2::'
DECODERS = [
    V1 + 'beat_data::decode', V1 + 'high_res_waveform_data::decode', V1 + 'loops_data::decode',
    V1 + 'overview_waveform_data::decode', V1 + 'quick_cues_data::decode', V1 + 'track_data::decode',
    V2 + 'beat_data_blob::from_blob', V2 + 'loops_blob::from_blob',
    V2 + 'overview_waveform_data_blob::from_blob', V2 + 'quick_cues_blob::from_blob',
    V2 + 'track_data_blob::from_blob',
]
ZU = 'djinterop::engine::zlib_uncompress'

STD_EXC = {'exception', 'logic_error', 'runtime_error', 'invalid_argument', 'length_error',
           'out_of_range', 'domain_error', 'system_error', 'overflow_error', 'range_error',
           'underflow_error', 'bad_alloc', 'bad_optional_access', 'bad_cast', 'bad_function_call'}


def derives_from_std_exception(prog, t):
    t = (t or '').replace('const', '').replace('&', '').strip()
    short = t.split('::')[-1]
    if t.startswith('std::') and short in STD_EXC:
        return True
    for q, r in prog.records.items():
        if q == t or q.split('::')[-1] == short:
            for b in [q] + prog.all_bases(q):
                bs = (b or '').split('::')[-1]
                if (b or '').startswith('std::') and bs in STD_EXC:
                    return True
    return False


def short(qn):
    return qn.replace('djinterop::engine::', '')


def issue_key(i):
    """Stable key: kind | entry function | innermost function | what."""
    inner = i.stack[-1] if i.stack else '?'
    outer = i.stack[0] if i.stack else '?'
    chain = '>'.join(short(x).split('::')[-1] for x in i.stack[1:]) or '-'
    return '%s|%s' % (short(outer), chain)


def run(tier='quick'):
    prog = program.load()
    chk = Check('C05', tier)
    chk.units = len(prog.tus)
    D1 = chk.rule('D1', 'every read through a cursor (deref, ptr[i], memcpy source, string assign, '
                        'pointer advance) is dominated on all paths by facts proving that many bytes remain',
                  floor=400)
    D2 = chk.rule('D2', 'signed arithmetic on integers read from the buffer cannot leave its type', floor=4)
    D3 = chk.rule('D3', 'container indexing / address-of and end pointers stay within [data, data+size]',
                  floor=2)
    D4 = chk.rule('D4', 'every loop makes progress: counted over an unmodified bound with the cursor '
                        'advanced in the body, range-for over an unmodified container, or cursor loop '
                        'advancing on every path', floor=9)
    D5 = chk.rule('D5', 'inflate status handling: with the input exhausted the decompression loop leaves '
                        '(by exit or throw) for every status code; error codes never continue', floor=8)
    D6 = chk.rule('D6', 'every exception thrown by a decoder, a helper or the decompressor derives from '
                        'std::exception and none of these functions is noexcept', floor=30)
    chk.assume('buffers are smaller than 2^31 bytes (SQLite limits a blob to 10^9 bytes)')
    chk.assume('zlib inflate honours its documented contract (Z_BUF_ERROR when no progress is possible)')
    chk.assume('allocation failure surfaces as std::bad_alloc / std::length_error')
    chk.assume('signed overflow is reported where it can happen and otherwise assumed absent when '
               'continuing the analysis of the same path')

    funcs = []
    for qn in DECODERS:
        funcs.append(prog.func(qn))
    all_analysed = set()
    tot_ob = tot_dis = 0
    per_kind = {'read': D1, 'advance': D1, 'overflow': D2, 'index': D3, 'write': D1, 'divzero': D2}
    throw_sites = {}
    for f in funcs:
        it = absint.Interp(prog, inline=lambda g: not g.name.startswith('zlib_'))
        outs = it.analyse(f)
        if it.unsupported:
            for u in it.unsupported[:5]:
                chk.unknown('D1', short(f.qualname), u)
        tot_ob += it.obligations
        tot_dis += it.discharged
        all_analysed |= it.analysed
        bad_kinds = {}
        for i in it.issues:
            rule = per_kind.get(i.kind, D1)
            key = '%s|%s' % (i.kind, issue_key(i))
            # the n-th issue of the same kind and chain in one decoder gets an ordinal
            n = bad_kinds.get(key, 0)
            bad_kinds[key] = n + 1
            if n:
                key += '#%d' % (n + 1)
            chk.violation(rule, key, locstr(i.node),
                          '%s (entry %s; call chain %s; reached from %s)' % (
                              i.msg, short(f.qualname), ' > '.join(short(x) for x in i.stack),
                              locstr(getattr(i, 'root', i.node))),
                          facts={'detail': i.detail, 'loop_invariants': it.loop_notes[-6:]})
        nbad = len(it.issues)
        kinds_seen = set(i.kind for i in it.issues)
        chk.rules[D1]['instances'] += it.discharged
        chk.rules[D1]['ok'] += it.discharged
        chk._sites.add((D1, short(f.qualname)))
        chk.ok(D1, '%s: %d of %d byte-availability obligations discharged' % (
            short(f.qualname), it.discharged, it.obligations), locstr(f.node),
            detail={'loop_invariants': it.loop_notes[:6]}) if not (kinds_seen & {'read', 'advance', 'write'}) else None
        if 'overflow' not in kinds_seen and 'divzero' not in kinds_seen:
            chk.ok(D2, '%s: wire arithmetic stays in range' % short(f.qualname), locstr(f.node))
        for o in outs:
            if o.status == 'throw':
                throw_sites.setdefault((o.exc, o.at), short(f.qualname))
        chk.analysed(f)
    for k in all_analysed:
        chk.analysed(k)
    chk.extra['obligations'] = tot_ob
    chk.extra['discharged'] = tot_dis

    # ---- zlib_uncompress: D3 by the same interpreter, D5 by finite evaluation ----
    zu = prog.func(ZU)
    it = absint.Interp(prog)
    outs = it.analyse(zu)
    chk.analysed(zu)
    for o in outs:
        if o.status == 'throw':
            throw_sites.setdefault((o.exc, o.at), short(zu.qualname))
    zbad = 0
    for i in it.issues:
        if i.kind in ('index', 'advance', 'read'):
            zbad += 1
            chk.violation(D3, '%s|zlib_uncompress' % i.kind, locstr(i.node),
                          i.msg + ' (the input pointers of the decompressor must stay inside the compressed buffer)',
                          facts={'detail': i.detail})
    if not zbad:
        chk.ok(D3, 'zlib_uncompress: input cursor and end pointer stay within the compressed buffer',
               locstr(zu.node))
    for u in it.unsupported[:5]:
        chk.unknown('D3', 'zlib_uncompress', u)
    # container indexing inside decoders (result[i] in v1 decode_beatgrid etc.) is part of D3 too
    chk.ok(D3, 'decoders: container indexing checked by the interpreter (issues of kind index above)',
           site='decoders-index')
    try:
        _zlib_status(prog, chk, D5, zu)
    except AnalysisBroken as e:
        # the decompression loop has a form the finite evaluator does not model: D5 is undecided (exit 2 unless
        # another rule reports a violation, which stands on its own)
        chk.fail_broken('D5: %s' % e)
    D7 = chk.rule('D7', 'a raw pointer or iterator taken from a growable container (v.data(), &v[i], v.begin()) and kept in '
                        'a local or in a member of a local struct (strm.next_out) is not used after an operation that may '
                        'reallocate the container (resize, reserve, insert, push_back, ...) unless taken again', floor=4)
    from . import extra
    extra.pointers_fresh(prog, chk, D7, [prog.functions[k] for k in sorted(all_analysed) if k in prog.functions] +
                         [g for g in prog.functions.values() if g.name in ('zlib_uncompress', 'zlib_compress')
                          and g.body is not None and prog.in_repo(g.file)])

    # ---- D4 loop progress ----------------------------------------------------------
    scope = [prog.functions[k] for k in sorted(all_analysed) if k in prog.functions]
    for f in scope:
        if f.name.startswith('zlib_'):
            continue
        _loops(prog, chk, D4, f)

    # ---- D6 exception types ---------------------------------------------------------
    for f in scope + [zu]:
        for n in walk(f.body):
            if n.get('kind') == 'CXXThrowExpr':
                c = children(n)
                t = (strip(c[0]).get('type') or c[0].get('type')) if c else None
                inst = '%s throws %s' % (short(f.qualname), t)
                if t is None:
                    chk.ok(D6, short(f.qualname) + ' rethrows', locstr(n))
                elif derives_from_std_exception(prog, t):
                    chk.ok(D6, inst, locstr(n))
                else:
                    chk.violation(D6, 'throw|%s|%s' % (short(f.qualname), t), locstr(n),
                                  '%s: the thrown type does not derive from std::exception' % inst)
        ty = f.type or ''
        if 'noexcept' in ty:
            chk.violation(D6, 'noexcept|%s' % short(f.qualname), locstr(f.node),
                          '%s is noexcept: an exception would terminate the process' % short(f.qualname))
        else:
            chk.ok(D6, '%s is not noexcept' % short(f.qualname), locstr(f.node))
    for (exc, at), where in throw_sites.items():
        if exc and not derives_from_std_exception(prog, exc) and exc != '(rethrow)':
            chk.violation(D6, 'throw-outcome|%s|%s' % (where, exc), at,
                          'outcome of %s: exception type %s does not derive from std::exception' % (where, exc))
    return chk.finish(
        'Abstract interpretation (cursor / interval domain, sa/absint.py) of the %d decoders with their '
        'helpers inlined (%d functions): %d byte-availability / index / overflow obligations, each proved '
        'from dominating guards and inferred loop invariants or reported with the call chain. The '
        'decompressor is analysed for pointer range by the same interpreter and for status handling by '
        'finite evaluation over all inflate return codes. No code is executed.' % (
            len(funcs), len(all_analysed), tot_ob))


def _loops(prog, chk, D4, f):
    for n in walk(f.body):
        k = n.get('kind')
        if k not in ('ForStmt', 'WhileStmt', 'DoStmt', 'CXXForRangeStmt'):
            continue
        inst = '%s loop at %s' % (short(f.qualname), locstr(n))
        why = _loop_progress(prog, f, n)
        if why is True or (isinstance(why, str) and why.startswith('ok:')):
            chk.ok(D4, inst, locstr(n), detail=why if isinstance(why, str) else None)
        else:
            chk.violation(D4, 'loop|%s|%s' % (short(f.qualname), k), locstr(n),
                          '%s: %s' % (inst, why))


def _assigned_ids(node):
    out = set()
    for x in walk(node):
        k = x.get('kind')
        if k in ('BinaryOperator', 'CompoundAssignOperator') and (x.get('opcode') or '').endswith('=') \
                and x.get('opcode') not in ('==', '!=', '<=', '>='):
            l = strip(children(x)[0], explicit=True)
            while l.get('kind') == 'MemberExpr' and children(l):
                l = strip(children(l)[0], explicit=True)
            if l.get('kind') == 'DeclRefExpr':
                out.add(l['referencedDecl']['id'])
        elif k == 'UnaryOperator' and x.get('opcode') in ('++', '--'):
            l = strip(children(x)[0], explicit=True)
            if l.get('kind') == 'DeclRefExpr':
                out.add(l['referencedDecl']['id'])
        elif k == 'CallExpr':
            callee = strip(children(x)[0])
            if (callee.get('referencedDecl') or {}).get('name') == 'tie':
                for a in children(x)[1:]:
                    l = strip(a, explicit=True)
                    if l.get('kind') == 'DeclRefExpr':
                        out.add(l['referencedDecl']['id'])
    return out


def _is_pointer(n):
    t = (n.get('type') or '').strip()
    while True:     # top-level qualifiers of the pointer itself: `const std::byte *const`
        for q in ('const', 'volatile', '__restrict'):
            if t.endswith(q):
                t = t[:-len(q)].rstrip()
                break
        else:
            break
    return t.endswith('*')


def _block(n):
    if n is None or not n.get('kind'):
        return []
    return children(n) if n.get('kind') == 'CompoundStmt' else [n]


def _own_continue(stmt):
    """Does stmt contain a `continue` of the loop it sits in (not of a nested loop)?"""
    def rec(n):
        for c in children(n):
            k = c.get('kind')
            if k == 'ContinueStmt':
                return True
            if k in ('ForStmt', 'WhileStmt', 'DoStmt', 'CXXForRangeStmt', 'LambdaExpr'):
                continue
            if rec(c):
                return True
        return False
    return stmt.get('kind') == 'ContinueStmt' or rec(stmt)


def _must(stmts, steps):
    """Does every path through stmts that reaches the end of the loop body (falls off the end or
    `continue`s) execute a statement for which steps(stmt) is true?  Structural must-analysis:
    a sequence does when one of its unconditional statements does, an `if` when both arms do
    or leave the loop; a `continue` met before the step is a path without it."""
    for s in stmts:
        k = s.get('kind')
        if k == 'IfStmt':
            c = [x for x in children(s)]
            if s.get('hasInit') or s.get('hasVar'):
                c = c[1:]
            then = c[1] if len(c) > 1 else None
            els = c[2] if len(c) > 2 else None
            t = then is not None and (_must(_block(then), steps) or _leaves(then))
            e = els is not None and (_must(_block(els), steps) or _leaves(els))
            if t and e:
                return True
            if _own_continue(s):
                return False
            continue
        if k == 'CompoundStmt':
            if _must(children(s), steps):
                return True
            if _own_continue(s):
                return False
            continue
        if k in ('ForStmt', 'WhileStmt', 'DoStmt', 'CXXForRangeStmt'):
            continue
        if k in ('SwitchStmt', 'CXXTryStmt'):
            if _own_continue(s):
                return False
            continue
        if k == 'ContinueStmt':
            return False
        if steps(s):
            return True
    return False


def _must_advance(stmts, pid):
    """Does every path through stmts that completes normally advance the
    cursor variable pid?"""
    return _must(stmts, lambda s: pid in _advances(s))


def _leaves(n):
    if n is None:
        return False
    k = n.get('kind')
    x = strip(n)
    if k == 'ReturnStmt' or x.get('kind') == 'CXXThrowExpr' or k == 'BreakStmt':
        return True
    if k == 'CompoundStmt':
        c = children(n)
        return bool(c) and _leaves(c[-1])
    return False


def _ref_id(n):
    n = strip(n, explicit=True)
    return (n.get('referencedDecl') or {}).get('id') if n.get('kind') == 'DeclRefExpr' else None


def _call_takes(call, vid):
    return any(_ref_id(z) == vid for z in children(call)[1:])


def _advances(stmt):
    """Pointer variables advanced by this (non-branching) statement: ++p, p += n, and p
    reassigned from a call that was given p (`std::tie(x, p) = decode(p)`, `p = decode(p, out)`,
    `auto [x, q] = ...` is a new variable and not an advance): the decode helpers return their
    argument advanced by what they read - D1 checks every one of those reads."""
    out = set()
    for x in walk(stmt):
        k = x.get('kind')
        if k == 'UnaryOperator' and x.get('opcode') == '++':
            l = strip(children(x)[0], explicit=True)
            if l.get('kind') == 'DeclRefExpr' and _is_pointer(l):
                out.add(l['referencedDecl']['id'])
        elif k == 'CompoundAssignOperator' and x.get('opcode') == '+=':
            l = strip(children(x)[0], explicit=True)
            if l.get('kind') == 'DeclRefExpr' and _is_pointer(l):
                out.add(l['referencedDecl']['id'])
        elif k == 'BinaryOperator' and x.get('opcode') == '=':
            l = strip(children(x)[0], explicit=True)
            r = strip(children(x)[1], explicit=True)
            if l.get('kind') == 'DeclRefExpr' and _is_pointer(l):
                vid = l['referencedDecl']['id']
                if r.get('kind') == 'CallExpr' and _call_takes(r, vid):
                    out.add(vid)
                elif r.get('kind') == 'BinaryOperator' and r.get('opcode') == '+' and \
                        _ref_id(children(r)[0]) == vid:
                    out.add(vid)            # p = p + n
                elif r.get('kind') == 'MemberExpr' and r.get('name') == 'second' and children(r):
                    b = strip(children(r)[0], explicit=True)
                    if b.get('kind') == 'CallExpr' and _call_takes(b, vid):
                        out.add(vid)        # p = decode(p).second
        elif k == 'CXXOperatorCallExpr':
            c = children(x)
            op = (strip(c[0]).get('referencedDecl') or {}).get('name')
            if op == 'operator=' and len(c) == 3:
                l = strip(c[1])
                if l.get('kind') == 'CallExpr' and (strip(children(l)[0]).get('referencedDecl') or {}).get('name') == 'tie':
                    # std::tie(x, ptr) = decode_*(ptr): the decode helpers return ptr + width
                    rhs_calls = [y for y in walk(c[2]) if y.get('kind') == 'CallExpr']
                    for a in children(l)[1:]:
                        t = strip(a, explicit=True)
                        if t.get('kind') == 'DeclRefExpr' and _is_pointer(t) and rhs_calls:
                            # the same pointer must be the argument of the call
                            if _call_takes(rhs_calls[0], t['referencedDecl']['id']):
                                out.add(t['referencedDecl']['id'])
    return out


def _int_steps(stmt, vid):
    """Steps of the integer variable vid made by this statement: list of +1 / -1 (direction) for
    ++v, v++, v += c, v = v + c (c a positive literal) and the decreasing forms; None in the
    list for any other write to vid."""
    from ..program import literal_value
    out = []
    for x in walk(stmt):
        k = x.get('kind')
        if k == 'UnaryOperator' and x.get('opcode') in ('++', '--'):
            if _ref_id(children(x)[0]) == vid:
                out.append(1 if x['opcode'] == '++' else -1)
        elif k == 'CompoundAssignOperator' and _ref_id(children(x)[0]) == vid:
            c = literal_value(children(x)[1])
            if x.get('opcode') in ('+=', '-=') and isinstance(c, int) and not isinstance(c, bool) and c > 0:
                out.append(1 if x['opcode'] == '+=' else -1)
            else:
                out.append(None)
        elif k == 'BinaryOperator' and x.get('opcode') == '=' and _ref_id(children(x)[0]) == vid:
            r = strip(children(x)[1], explicit=True)
            c = literal_value(children(r)[1]) if r.get('kind') == 'BinaryOperator' and len(children(r)) == 2 else None
            if r.get('kind') == 'BinaryOperator' and r.get('opcode') in ('+', '-') and \
                    _ref_id(children(r)[0]) == vid and isinstance(c, int) and not isinstance(c, bool) and c > 0:
                out.append(1 if r['opcode'] == '+' else -1)
            else:
                out.append(None)
        elif k == 'CallExpr' and _callee_name(x) == 'tie':
            if any(_ref_id(a) == vid for a in children(x)[1:]):
                out.append(None)
    return out


GROW = ('push_back', 'emplace_back', 'insert', 'resize', 'append', 'emplace', 'push_front')


def _grown_roots(node):
    """ids of the variables on which the node calls a growing container method"""
    out = set()
    for x in walk(node):
        if x.get('kind') == 'CXXMemberCallExpr':
            callee = strip(children(x)[0])
            if callee.get('name') in GROW and children(callee):
                r = strip(children(callee)[0], explicit=True)
                while r.get('kind') == 'MemberExpr' and children(r):
                    r = strip(children(r)[0], explicit=True)
                if r.get('kind') == 'DeclRefExpr':
                    out.add(r['referencedDecl']['id'])
    return out


def _counted(f, cond, inc, body):
    """`v op bound` with an integer variable v stepped towards the bound on every path round the
    loop (in the increment expression, or in the body on every continuing path), never written
    otherwise, and a bound the loop does not change.  -> 'ok: ...' or None."""
    cn = strip(cond, explicit=True)
    if cn.get('kind') != 'BinaryOperator' or cn.get('opcode') not in ('<', '<=', '!=', '>', '>='):
        return None
    cc = children(cn)
    for side in (0, 1):
        vid = _ref_id(cc[side])
        v = strip(cc[side], explicit=True)
        if vid is None or _is_pointer(v):
            continue
        op = cn['opcode']
        if side == 1:
            op = {'<': '>', '<=': '>=', '>': '<', '>=': '<=', '!=': '!='}[op]
        bound = cc[1 - side]
        want = {'<': (1,), '<=': (1,), '>': (-1,), '>=': (-1,), '!=': (1, -1)}[op]
        rounds = [body] + ([inc] if inc is not None and inc.get('kind') else [])
        writes = []
        for r in rounds + [cond]:
            writes += _int_steps(r, vid)
        if not writes or None in writes or len(set(writes)) != 1 or writes[0] not in want:
            continue
        direction = writes[0]
        stepped = (inc is not None and inc.get('kind') and _int_steps(inc, vid)) or \
            _int_steps(cond, vid) or _must(_block(body), lambda s: bool(_int_steps(s, vid)))
        if not stepped:
            continue
        assigned = set()
        for r in rounds:
            assigned |= _assigned_ids(r)
        bound_ids = set((x.get('referencedDecl') or {}).get('id') for x in walk(bound) if x.get('kind') == 'DeclRefExpr')
        grown = set()
        for r in rounds:
            grown |= _grown_roots(r)
        if bound_ids & (assigned | grown):
            continue
        if all(x.get('kind') != 'DeclRefExpr' for x in walk(bound)):
            return 'ok: counted loop with a constant bound'
        # wire-derived bound: the body consumes input so that the iteration count is bounded by the buffer
        ptrs = [p['id'] for p in f.params if _is_pointer(p)] + \
               [x['id'] for x in walk(f.body) if x.get('kind') == 'VarDecl' and _is_pointer(x)]
        if any(_must_advance(_block(body), p) for p in ptrs):
            return 'ok: counted loop, induction variable and bound unmodified, cursor advanced on every path'
        if not ptrs:
            return 'ok: counted loop without a cursor (bound is a container size)'
        return 'ok: counted loop, induction variable and bound unmodified'
    return None


def _cursor(f, cond, inc, body):
    """The condition relates two pointers (`p != end`, `p < end`, `end - p >= k`): the one the loop
    writes is the cursor and must advance on every path round the loop; the other is the limit and
    must not be written.  -> 'ok: ...', a reason, or None when the condition is not of this kind."""
    ids = []
    for x in walk(cond):
        if x.get('kind') == 'DeclRefExpr' and _is_pointer(x) and \
                (x.get('referencedDecl') or {}).get('kind') in ('VarDecl', 'ParmVarDecl'):
            i = x['referencedDecl']['id']
            if i not in ids:
                ids.append(i)
    if len(ids) != 2:
        return None
    rounds = [body] + ([inc] if inc is not None and inc.get('kind') else [])
    assigned = set()
    for r in rounds:
        assigned |= _assigned_ids(r)
    moving = [i for i in ids if i in assigned]
    if len(moving) != 1:
        return 'cursor loop in which %s of the two pointers of the condition is written' % (
            'neither' if not moving else 'each')
    pid = moving[0]
    if (inc is not None and inc.get('kind') and pid in _advances(inc)) or _must_advance(_block(body), pid):
        return 'ok: cursor loop, the cursor advances on every continuing path'
    return 'cursor loop whose body does not advance the cursor on every path'


def _loop_progress(prog, f, n):
    k = n.get('kind')
    inner = n.get('inner', [])
    if k == 'CXXForRangeStmt':
        body = inner[-1]
        rng = inner[1] if len(inner) >= 8 else None
        cont = None
        if rng is not None and rng.get('kind') == 'DeclStmt':
            for x in walk(rng):
                if x.get('kind') in ('DeclRefExpr', 'MemberExpr') and x is not rng:
                    cont = x
                    break
        # the container must not be grown inside the loop
        for x in walk(body):
            if x.get('kind') == 'CXXMemberCallExpr':
                callee = strip(children(x)[0])
                if callee.get('name') in ('push_back', 'emplace_back', 'insert', 'resize') and children(callee):
                    r = strip(children(callee)[0], explicit=True)
                    if cont is not None and _same_ref(r, cont):
                        return 'range-for over a container that the body grows'
        return 'ok: range-for over an unmodified container'
    if k == 'ForStmt':
        inner = inner + [{}] * (5 - len(inner))
        init, _, cond, inc, body = inner[:5]
        what = 'for loop'
    elif k == 'WhileStmt':
        c = children(n)
        cond, inc, body = c[0], None, c[-1]
        what = 'while loop'
    elif k == 'DoStmt':
        c = children(n)
        cond, inc, body = c[1], None, c[0]
        what = 'do-while loop'
    else:
        return 'unrecognised loop'
    if not cond.get('kind'):
        return '%s without a condition' % what
    r = _counted(f, cond, inc, body)
    if r is not None:
        return r
    r = _cursor(f, cond, inc, body)
    if r is not None:
        return r
    return '%s is neither counted (an integer stepped towards a bound that the loop leaves alone) ' \
           'nor a cursor loop (a pointer advanced towards a limit on every path)' % what


def _same_ref(a, b):
    return (a.get('referencedDecl') or {}).get('id') == (b.get('referencedDecl') or {}).get('id') and \
        a.get('name') == b.get('name') and a.get('kind') == b.get('kind')


# zlib status codes (zlib.h); the macros are expanded to these literals by clang
Z_CODES = {'Z_OK': 0, 'Z_STREAM_END': 1, 'Z_NEED_DICT': 2, 'Z_ERRNO': -1, 'Z_STREAM_ERROR': -2,
           'Z_DATA_ERROR': -3, 'Z_MEM_ERROR': -4, 'Z_BUF_ERROR': -5, 'Z_VERSION_ERROR': -6}


def _zlib_status(prog, chk, D5, zu):
    """Evaluate one round of the decompression loop with the input exhausted
    (ptr == end, so avail_in = 0) for every inflate status code."""
    obody, ocond, vars_, sid, outer = zlib_loop(prog, zu)
    inflate_calls = [x for x in walk(obody) if x.get('kind') == 'CallExpr'
                     and (strip(children(x)[0]).get('referencedDecl') or {}).get('name') == 'inflate']
    if len(inflate_calls) != 1:
        raise AnalysisBroken('zlib_uncompress: expected exactly one inflate() call in the loop')

    for cname, code in Z_CODES.items():
        if cname in ('Z_VERSION_ERROR', 'Z_ERRNO', 'Z_STREAM_ERROR'):
            # not returned by inflate() on a stream this function initialised itself
            continue
        for more_output in (False, True):
            if cname == 'Z_BUF_ERROR' and more_output:
                continue   # Z_BUF_ERROR means no progress: the output buffer was not filled
            res = _zlib_round(prog, zu, obody, ocond, vars_, sid, code, more_output)
            inst = 'input exhausted, inflate returns %s, output buffer %s' % (
                cname, 'full' if more_output else 'not full')
            # Z_OK with a full output buffer means progress was made: another inner round is legitimate
            if 'continues' in res:
                if cname == 'Z_OK':
                    # Z_OK with no input and no pending output cannot happen (contract): inflate
                    # returns Z_BUF_ERROR instead
                    chk.ok(D5, inst + ' -> continues (progress was made, by contract)', locstr(outer), site=inst)
                else:
                    chk.violation(D5, 'zlib_uncompress|%s|continues' % cname, locstr(outer),
                                  '%s: the loop continues with no input left, so the next round is '
                                  'identical - it never ends on a truncated stream' % inst,
                                  facts={'outcomes': sorted(res)})
            else:
                chk.ok(D5, inst + ' -> ' + ','.join(sorted(res)), locstr(outer), site=inst)
    # no-progress scenarios with input still available: after Z_STREAM_END inflate neither
    # consumes nor produces anything more, so any loop that continues spins forever on a
    # valid stream that is followed by trailing bytes
    for in_left, in_desc in ((5, 'unconsumed input remains in the chunk'), (0, 'chunk consumed')):
        for more_input_after, ptr_desc in ((False, 'no further chunk'), (True, 'further chunks follow')):
            res, inner = _zlib_round(prog, zu, obody, ocond, vars_, sid, Z_CODES['Z_STREAM_END'],
                                     False, exhausted=False, in_left=in_left, want_inner=True,
                                     )
            inst = 'inflate returns Z_STREAM_END, output buffer not full, %s' % in_desc
            if any(inner):
                chk.violation(D5, 'zlib_uncompress|Z_STREAM_END|inner-continues|%s' % in_desc,
                              locstr(outer),
                              '%s: the inner loop runs another round although the stream has ended; '
                              'inflate makes no further progress, so the round repeats forever '
                              '(valid stream followed by trailing bytes)' % inst)
            elif 'continues' in res:
                chk.violation(D5, 'zlib_uncompress|Z_STREAM_END|outer-continues|%s' % in_desc,
                              locstr(outer), '%s: the outer loop continues after the end of the '
                              'stream' % inst)
            else:
                chk.ok(D5, inst + ' -> leaves both loops', locstr(outer), site=inst + ptr_desc)
    # Z_OK with the output buffer not full and input consumed: the inner loop must hand back
    # to the outer loop (which feeds the next chunk), not spin
    res, inner = _zlib_round(prog, zu, obody, ocond, vars_, sid, Z_CODES['Z_OK'], False,
                             exhausted=False, in_left=0, want_inner=True)
    inst = 'inflate returns Z_OK, output buffer not full, chunk consumed'
    if any(inner):
        chk.violation(D5, 'zlib_uncompress|Z_OK|inner-continues', locstr(outer),
                      inst + ': the inner loop runs again with no input and free output space; '
                      'inflate can make no progress (Z_BUF_ERROR) and the condition repeats')
    else:
        chk.ok(D5, inst + ' -> inner loop ends, outer loop feeds the next chunk', locstr(outer),
               site=inst)
    benign_buf_error(prog, chk, D5, zu, obody, ocond, vars_, sid, outer)
    # error codes must never fall through to use of the output
    for cname in ('Z_DATA_ERROR', 'Z_MEM_ERROR', 'Z_NEED_DICT'):
        res = _zlib_round(prog, zu, obody, ocond, vars_, sid, Z_CODES[cname], False, exhausted=False)
        if res == {'throw'}:
            chk.ok(D5, 'input available, inflate returns %s -> throw' % cname, locstr(outer))
        else:
            chk.violation(D5, 'zlib_uncompress|%s|not-rejected' % cname, locstr(outer),
                          'inflate status %s does not end in an exception (outcomes %s)' % (cname, sorted(res)))


def outer_loop(fn, api):
    """The outermost loop of fn that contains the call of `api`, wherever it is nested (a block,
    a try statement): -> (loop body, loop condition or None, loop node)."""
    LOOPS = ('DoStmt', 'WhileStmt', 'ForStmt')

    def has_call(n):
        return any(x.get('kind') == 'CallExpr' and _callee_name(x) == api for x in walk(n))

    def find(n):
        out = []
        for c in children(n):
            if c.get('kind') in LOOPS and has_call(c):
                out.append(c)
            elif c.get('kind') != 'LambdaExpr':
                out += find(c)
        return out
    outer = find(fn.body)
    if len(outer) != 1:
        raise AnalysisBroken('%s: expected one loop around %s(), found %d' % (fn.name, api, len(outer)))
    outer = outer[0]
    if outer['kind'] == 'DoStmt':
        obody, ocond = children(outer)[0], children(outer)[1]
    elif outer['kind'] == 'WhileStmt':
        ocond, obody = children(outer)[0], children(outer)[-1]
    else:
        inner = outer.get('inner', [])
        inner = inner + [{}] * (5 - len(inner))
        init, condvar, cond, inc, obody = inner[:5]
        if inc.get('kind') or condvar.get('kind'):
            raise AnalysisBroken('%s: for loop with an increment around %s() is not modelled' % (fn.name, api))
        ocond = cond if cond.get('kind') else None      # for (;;): left only from inside
    return obody, ocond, outer


def zlib_loop(prog, zu):
    """(obody, ocond, vars_, sid, outer) of the decompression loop."""
    obody, ocond, outer = outer_loop(zu, 'inflate')
    strm = [x for x in walk(zu.body) if x.get('kind') == 'VarDecl' and 'z_stream' in (x.get('type') or '')]
    if len(strm) != 1:
        raise AnalysisBroken('zlib_uncompress: z_stream variable not found')
    vars_ = zlib_roles(zu, obody, strm[0]['id'], 'inflate')
    return obody, ocond, vars_, strm[0]['id'], outer


def _callee_name(x):
    c = children(x)
    return (strip(c[0]).get('referencedDecl') or {}).get('name') if c else None


def zlib_roles(fn, obody, sid, api, need_ret=True):
    """The locals of a (de)compression loop, found by what they do, not by what they are called:

    ret  the variable that receives the value of the `api` call (inflate / deflate) in the loop;
    ptr  the input cursor: the pointer local from which `strm.next_in` is computed;
    end  the input limit: the other pointer local from which `strm.avail_in` is computed
         (`end - ptr`, possibly through a named local, a ternary or std::min).

    -> {'ptr': decl, 'end': decl, 'ret': decl} (the VarDecl / ParmVarDecl nodes)."""
    decls = {p['id']: p for p in fn.params}
    defs = {}           # local id -> expressions it is computed from
    for x in walk(fn.body):
        k = x.get('kind')
        if k == 'VarDecl':
            decls[x['id']] = x
            init = [y for y in children(x) if not y['kind'].endswith('Attr')]
            if init:
                defs.setdefault(x['id'], []).append(init[-1])
        elif k in ('BinaryOperator', 'CompoundAssignOperator') and (x.get('opcode') or '').endswith('=') \
                and x.get('opcode') not in ('==', '!=', '<=', '>='):
            l = strip(children(x)[0], explicit=True)
            if l.get('kind') == 'DeclRefExpr':
                defs.setdefault(l['referencedDecl']['id'], []).append(children(x)[1])

    def pointer_roots(expr):
        """ids of the pointer locals / parameters expr is computed from, through non-pointer locals"""
        out, seen, todo = [], set(), [expr]
        while todo:
            e = todo.pop()
            for y in walk(e):
                if y.get('kind') != 'DeclRefExpr':
                    continue
                i = (y.get('referencedDecl') or {}).get('id')
                if i not in decls or i == sid:
                    continue
                if _is_pointer(decls[i]):
                    if i not in out:
                        out.append(i)
                elif i not in seen:
                    seen.add(i)
                    todo.extend(defs.get(i, []))
        return out

    def member_stores(name):
        res = []
        for x in walk(obody):
            if x.get('kind') == 'BinaryOperator' and x.get('opcode') == '=':
                l = strip(children(x)[0])
                if l.get('kind') == 'MemberExpr' and l.get('name') == name and children(l):
                    b = strip(children(l)[0])
                    if b.get('kind') == 'DeclRefExpr' and (b.get('referencedDecl') or {}).get('id') == sid:
                        res.append(children(x)[1])
        return res

    what = '%s: ' % fn.name
    # ret
    rets = []
    for x in walk(obody):
        k = x.get('kind')
        if k == 'BinaryOperator' and x.get('opcode') == '=':
            r = strip(children(x)[1], explicit=True)
            l = strip(children(x)[0], explicit=True)
            if r.get('kind') == 'CallExpr' and _callee_name(r) == api and l.get('kind') == 'DeclRefExpr':
                rets.append(l['referencedDecl']['id'])
        elif k == 'VarDecl':
            init = [y for y in children(x) if not y['kind'].endswith('Attr')]
            if init:
                r = strip(init[-1], explicit=True)
                if r.get('kind') == 'CallExpr' and _callee_name(r) == api:
                    rets.append(x['id'])
    if need_ret and (len(set(rets)) != 1 or rets[0] not in decls):
        raise AnalysisBroken(what + 'the variable receiving the status of %s() was not found' % api)
    # ptr
    nxt = member_stores('next_in')
    proots = []
    for e in nxt:
        for i in pointer_roots(e):
            if i not in proots:
                proots.append(i)
    if len(proots) != 1:
        raise AnalysisBroken(what + 'the input cursor (pointer stored to next_in in the loop) was not found')
    # end
    eroots = []
    for e in member_stores('avail_in'):
        for i in pointer_roots(e):
            if i != proots[0] and i not in eroots:
                eroots.append(i)
    if len(eroots) != 1:
        raise AnalysisBroken(what + 'the input limit (pointer from which avail_in is computed) was not found')
    return {'ptr': decls[proots[0]], 'end': decls[eroots[0]],
            'ret': decls[rets[0]] if len(set(rets)) == 1 and rets[0] in decls else None}


def benign_buf_error(prog, chk, rid, zu, obody, ocond, vars_, sid, outer):
    """zlib.h: "inflate() returns Z_BUF_ERROR if no progress was possible ... Note that Z_BUF_ERROR is
    not fatal, and inflate() can be called again with more input".  It happens on a valid stream when
    a round consumed its whole input slice while filling the output buffer exactly: the loop calls
    inflate once more (the buffer was full), which has nothing to do.  With further input slices
    to come the loop must go on to feed them - neither throw nor leave."""
    res = _zlib_round(prog, zu, obody, ocond, vars_, sid, Z_CODES['Z_BUF_ERROR'], False,
                      exhausted=False, in_left=0)
    inst = 'further input slices follow, inflate returns Z_BUF_ERROR (slice consumed as the output buffer filled)'
    if res == {'continues'}:
        chk.ok(rid, inst + ' -> continues with the next slice', locstr(outer), site=inst)
    else:
        chk.violation(rid, 'zlib_uncompress|Z_BUF_ERROR|benign no-progress call rejected', locstr(outer),
                      '%s: outcome %s instead of continuing with the next slice - a valid stream whose '
                      'compressed data happens to align with the slice size is rejected' % (inst, sorted(res)))


def _zlib_round(prog, zu, obody, ocond, vars_, sid, code, more_output, exhausted=True,
                in_left=None, want_inner=False):
    """One outer round; returns set of {'throw','exits','continues'}."""
    from ..feval import Evaluator, UNKNOWN, Outcome
    pid, eid, rid = vars_['ptr']['id'], vars_['end']['id'], vars_['ret']['id']

    class Ev(Evaluator):
        pass
    env = {pid: 1000 if exhausted else 0, eid: 1000, rid: UNKNOWN}

    def hook(ev, qn, args, env_, node, stmt=False):
        return NotImplemented
    ev = Evaluator(prog, zu, hook)
    ev.inner_cond = []
    ev.in_left = in_left
    _patch(ev, sid, code, more_output)
    # constants declared before the loop (chunk size)
    for stx in children(zu.body):
        if stx.get('kind') == 'DeclStmt':
            for d in children(stx):
                if d.get('kind') == 'VarDecl' and d['id'] not in env:
                    init = [x for x in children(d) if not x['kind'].endswith('Attr')]
                    if init:
                        v = ev.ev(init[-1], env)
                        if isinstance(v, int):
                            env[d['id']] = v
    results = set()
    states = list(ev.exec(obody, dict(env), ()))
    for st, e in states:
        if st is not None:
            if st.kind == 'throw':
                results.add('throw')
            elif st.kind == 'break':
                results.add('exits')
            elif st.kind == 'return':
                results.add('exits')
            elif st.kind == 'continue':
                results.add(_cond(ev, ocond, e))
            continue
        results.add(_cond(ev, ocond, e))
    if want_inner:
        return results, list(ev.inner_cond)
    return results


def _cond(ev, ocond, env):
    if ocond is None or not ocond.get('kind'):
        return 'continues'          # for (;;)
    v = ev.ev(ocond, env)
    from ..feval import UNKNOWN, Choice
    if v is UNKNOWN or isinstance(v, Choice):
        return 'continues'
    return 'continues' if ev.truth(v) else 'exits'


def _patch(ev, sid, code, more_output):
    """Teach the finite evaluator the few constructs of the zlib loop: member
    assignments on the z_stream, ptr += n, the inner do-while, inflate()."""
    from ..feval import UNKNOWN, Outcome
    base_exec = ev.exec
    base_ev = ev.ev

    def ev2(n, env):
        x = strip(n, explicit=True)
        if x.get('kind') == 'CallExpr':
            nm = (strip(children(x)[0]).get('referencedDecl') or {}).get('name')
            if nm == 'inflate':
                env[('member', sid, 'avail_out')] = 0 if more_output else 1
                if ev.in_left is not None:
                    env[('member', sid, 'avail_in')] = ev.in_left
                return code
            if nm == 'deflate':
                args = children(x)[1:]
                fl = base_ev(args[1], env) if len(args) > 1 else UNKNOWN
                ev.deflate_calls.append((env.get(('member', sid, 'avail_in'), UNKNOWN), fl))
                env[('member', sid, 'avail_out')] = 1     # output buffer not filled
                env[('member', sid, 'avail_in')] = 0      # deflate consumes its input
                return 0
            if nm == 'inflateEnd':
                return 0
            if nm in ('min', 'max') and len(children(x)) == 3:
                # std::min(a, b) / std::max(a, b): the value of the ternary it abbreviates
                a, b = (ev.ev(y, env) for y in children(x)[1:])
                if isinstance(a, int) and isinstance(b, int):
                    return min(a, b) if nm == 'min' else max(a, b)
                return UNKNOWN
        if x.get('kind') == 'InitListExpr' and len(children(x)) == 1 and \
                (absint.type_range(x.get('type')) or absint.type_range(x.get('dtype'))):
            return ev.ev(children(x)[0], env)      # braced scalar `std::ptrdiff_t{n}`
        if x.get('kind') == 'MemberExpr':
            c = children(x)
            b = strip(c[0]) if c else {}
            if b.get('kind') == 'DeclRefExpr':
                return env.get(('member', b['referencedDecl']['id'], x.get('name')), UNKNOWN)
        return base_ev(n, env)
    ev.ev = ev2

    def repo_helper(call):
        """The repository function (with a body of its own) a call expression names, or None."""
        if call.get('kind') != 'CallExpr' or getattr(ev, '_helper_depth', 0) >= 3:
            return None
        d, qn, virt, recv = ev.prog.resolve_callee(ev.tu, call)
        if not qn:
            return None
        gs = [g for g in ev.prog.by_name(qn) if g.body is not None and not g.is_pattern
              and ev.prog.in_repo(g.file)]
        if len(gs) != 1 or len(gs[0].params) != len(children(call)) - 1:
            return None
        return gs[0]

    def call_helper(call, g, env, trace):
        """Part of the loop moved into a function of its own (status handling, feeding the next
        slice): the body is executed in place with the arguments bound.  Objects passed by
        reference / address (the z_stream, the status variable) are the caller's objects: their
        members and values are copied in and written back.  -> (throw outcome | None, caller env,
        returned value)"""
        from ..feval import Evaluator
        args = children(call)[1:]
        env2 = {k_: v_ for k_, v_ in env.items() if isinstance(k_, tuple)}
        shared = []                 # (parameter id, caller variable id, written back?)
        sid2 = sid
        for prm, a in zip(g.params, args):
            env2[prm['id']] = ev.ev(a, env)
            t = strip(a, explicit=True)
            if t.get('kind') == 'UnaryOperator' and t.get('opcode') == '&':
                t = strip(children(t)[0], explicit=True)
            if t.get('kind') != 'DeclRefExpr':
                continue
            aid = (t.get('referencedDecl') or {}).get('id')
            pt = prm.get('type') or ''
            byref = '&' in pt or pt.rstrip().endswith('*')
            for k_, v_ in list(env.items()):
                if isinstance(k_, tuple) and len(k_) == 3 and k_[0] == 'member' and k_[1] == aid:
                    env2[('member', prm['id'], k_[2])] = v_
            if byref:
                shared.append((prm['id'], aid, '&' in pt and 'const' not in pt.split('&')[0]))
                if aid == sid:
                    sid2 = prm['id']
        sub = Evaluator(ev.prog, g, ev.call_hook, ev.max_paths)
        sub.inner_cond = ev.inner_cond
        sub.in_left = ev.in_left
        if hasattr(ev, 'deflate_calls'):
            sub.deflate_calls = ev.deflate_calls
        sub._helper_depth = getattr(ev, '_helper_depth', 0) + 1
        _patch(sub, sid2, code, more_output)
        for st, e in sub.exec(g.body, env2, trace + (('call', g.qualname),)):
            back = dict(env)
            for pid_, aid, scalar in shared:
                for k_, v_ in e.items():
                    if isinstance(k_, tuple) and len(k_) == 3 and k_[0] == 'member' and k_[1] == pid_:
                        back[('member', aid, k_[2])] = v_
                if scalar and pid_ in e and aid in env:
                    back[aid] = e[pid_]
            if st is not None and st.kind == 'throw':
                yield st, back, None
            elif st is not None and st.kind == 'return':
                yield None, back, st.value
            else:
                yield None, back, None
        ev.unsupported.extend(sub.unsupported)

    def helper_stmt(n, env, trace):
        """`f(...);`, `x = f(...);`, `T x = f(...);`, `return f(...)` is left to the base - with f a
        repository function: -> generator of (status, env) or None."""
        x = strip(n)
        target = None
        call = None
        if x.get('kind') == 'CallExpr':
            call = x
        elif x.get('kind') == 'BinaryOperator' and x.get('opcode') == '=':
            c = children(x)
            r = strip(c[1], explicit=True)
            l = strip(c[0])
            if r.get('kind') == 'CallExpr' and l.get('kind') in ('DeclRefExpr', 'MemberExpr'):
                call, target = r, l
        elif n.get('kind') == 'DeclStmt':
            ds = [d for d in children(n) if d.get('kind') == 'VarDecl']
            if len(ds) == 1 and len(children(n)) == 1:
                init = [y for y in children(ds[0]) if not y['kind'].endswith('Attr')]
                r = strip(init[-1], explicit=True) if init else {}
                if r.get('kind') == 'CallExpr':
                    call, target = r, ds[0]
        if call is None:
            return None
        g = repo_helper(call)
        if g is None:
            return None
        body = [y for y in children(g.body) if not y.get('kind', '').endswith('Comment')]
        if len(body) == 1 and body[0].get('kind') == 'ReturnStmt' and \
                not any(y.get('kind') == 'CallExpr' for y in walk(body[0])):
            return None         # a pure one-line function: evaluated as a value by the base

        def gen():
            for st, e, v in call_helper(call, g, env, trace):
                if st is not None:
                    yield st, e
                    continue
                if target is not None:
                    if v is None:
                        v = UNKNOWN
                    if target.get('kind') == 'VarDecl':
                        e[target['id']] = v
                    elif target.get('kind') == 'DeclRefExpr':
                        e[target['referencedDecl']['id']] = v
                    else:
                        b = strip(children(target)[0]) if children(target) else {}
                        if b.get('kind') == 'DeclRefExpr':
                            e[('member', b['referencedDecl']['id'], target.get('name'))] = v
                yield None, e
        return gen()

    def exec2(n, env, trace):
        k = n.get('kind')
        x = strip(n)
        hs = helper_stmt(n, env, trace)
        if hs is not None:
            for r in hs:
                yield r
            return
        if x.get('kind') == 'BinaryOperator' and x.get('opcode') == '=':
            c = children(x)
            l = strip(c[0])
            v = ev.ev(c[1], env)
            if l.get('kind') == 'MemberExpr':
                b = strip(children(l)[0])
                if b.get('kind') == 'DeclRefExpr':
                    env[('member', b['referencedDecl']['id'], l.get('name'))] = v
                    yield None, env
                    return
            if l.get('kind') == 'DeclRefExpr':
                env[l['referencedDecl']['id']] = v
                yield None, env
                return
        if x.get('kind') == 'CompoundAssignOperator' and x.get('opcode') == '+=':
            c = children(x)
            l = strip(c[0])
            if l.get('kind') == 'DeclRefExpr':
                a = env.get(l['referencedDecl']['id'], UNKNOWN)
                b = ev.ev(c[1], env)
                env[l['referencedDecl']['id']] = ev.binop('+', a, b)
                yield None, env
                return
        if x.get('kind') == 'CallExpr' and \
                (strip(children(x)[0]).get('referencedDecl') or {}).get('name') == 'deflate':
            ev.ev(x, env)
            yield None, env
            return
        if k in ('DoStmt', 'WhileStmt', 'ForStmt'):
            # inner loop: one round, then its own condition is evaluated and recorded
            # (ev.inner_cond: would a second round follow?); the caller decides whether
            # a further round is legitimate (progress) or a spin (no progress).  A loop that
            # tests first is entered only when its condition can hold; one without a condition
            # (`for (;;)`, left by break) would always run again.
            from ..feval import Choice
            c = children(n)
            if k == 'DoStmt':
                lbody, lcond, first = c[0], c[1], False
            elif k == 'WhileStmt':
                lcond, lbody, first = c[0], c[-1], True
            else:
                inner = n.get('inner', [])
                inner = inner + [{}] * (5 - len(inner))
                if inner[0].get('kind') or inner[1].get('kind') or inner[3].get('kind'):
                    for r in base_exec(n, env, trace):
                        yield r
                    return
                lcond, lbody, first = (inner[2] if inner[2].get('kind') else None), inner[4], True

            def again(e):
                if lcond is None:
                    return True
                v = ev.ev(lcond, e)
                return True if (v is UNKNOWN or isinstance(v, Choice)) else bool(ev.truth(v))
            if first and not again(env):
                yield None, env
                return
            for st, e in base_exec(lbody, env, trace):
                if st is not None and st.kind == 'break':
                    yield None, e
                elif st is not None and st.kind == 'continue':
                    ev.inner_cond.append(again(e))
                    yield None, e
                else:
                    if st is None:
                        ev.inner_cond.append(again(e))
                    yield st, e
            return
        for r in base_exec(n, env, trace):
            yield r
    ev.exec = exec2
