"""C05  Decoders are safe and terminate on arbitrary bytes.

D1 cursor bounds   D2 wire-integer overflow   D3 buffer addressing
D4 loop progress   D5 zlib status handling    D6 exception types
"""
from .. import program, absint, feval
from ..frontend import AnalysisBroken
from ..program import children, strip, walk, locstr
from ..report import Check

V1 = 'djinterop::engine::v1::'
V2 = 'djinterop::engine::v2::'
DECODERS = [
    V1 + 'beat_data::decode', V1 + 'high_res_waveform_data::decode', V1 + 'loops_data::decode',
    V1 + 'overview_waveform_data::decode', V1 + 'quick_cues_data::decode', V1 + 'track_data::decode',
    V2 + 'beat_data_blob::from_blob', V2 + 'loops_blob::from_blob',
    V2 + 'overview_waveform_data_blob::from_blob', V2 + 'quick_cues_blob::from_blob',
    V2 + 'track_data_blob::from_blob',
]
ZU = 'djinterop::engine::zlib_uncompress'

STD_EXC = {'exception', 'logic_error', 'runtime_error', 'invalid_argument', 'length_error',
           'out_of_range', 'domain_error', 'system_error', 'overflow_error', 'range_error',
           'underflow_error', 'bad_alloc', 'bad_optional_access', 'bad_cast', 'bad_function_call'}


def derives_from_std_exception(prog, t):
    t = (t or '').replace('const', '').replace('&', '').strip()
    short = t.split('::')[-1]
    if t.startswith('std::') and short in STD_EXC:
        return True
    for q, r in prog.records.items():
        if q == t or q.split('::')[-1] == short:
            for b in [q] + prog.all_bases(q):
                bs = (b or '').split('::')[-1]
                if (b or '').startswith('std::') and bs in STD_EXC:
                    return True
    return False


def short(qn):
    return qn.replace('djinterop::engine::', '')


def issue_key(i):
    """Stable key: kind | entry function | innermost function | what."""
    inner = i.stack[-1] if i.stack else '?'
    outer = i.stack[0] if i.stack else '?'
    chain = '>'.join(short(x).split('::')[-1] for x in i.stack[1:]) or '-'
    return '%s|%s' % (short(outer), chain)


def run(tier='quick'):
    prog = program.load()
    chk = Check('C05', tier)
    chk.units = len(prog.tus)
    D1 = chk.rule('D1', 'every read through a cursor (deref, ptr[i], memcpy source, string assign, '
                        'pointer advance) is dominated on all paths by facts proving that many bytes remain',
                  floor=400)
    D2 = chk.rule('D2', 'signed arithmetic on integers read from the buffer cannot leave its type', floor=4)
    D3 = chk.rule('D3', 'container indexing / address-of and end pointers stay within [data, data+size]',
                  floor=2)
    D4 = chk.rule('D4', 'every loop makes progress: counted over an unmodified bound with the cursor '
                        'advanced in the body, range-for over an unmodified container, or cursor loop '
                        'advancing on every path', floor=9)
    D5 = chk.rule('D5', 'inflate status handling: with the input exhausted the decompression loop leaves '
                        '(by exit or throw) for every status code; error codes never continue', floor=8)
    D6 = chk.rule('D6', 'every exception thrown by a decoder, a helper or the decompressor derives from '
                        'std::exception and none of these functions is noexcept', floor=30)
    chk.assume('buffers are smaller than 2^31 bytes (SQLite limits a blob to 10^9 bytes)')
    chk.assume('zlib inflate honours its documented contract (Z_BUF_ERROR when no progress is possible)')
    chk.assume('allocation failure surfaces as std::bad_alloc / std::length_error')
    chk.assume('signed overflow is reported where it can happen and otherwise assumed absent when '
               'continuing the analysis of the same path')

    funcs = []
    for qn in DECODERS:
        funcs.append(prog.func(qn))
    all_analysed = set()
    tot_ob = tot_dis = 0
    per_kind = {'read': D1, 'advance': D1, 'overflow': D2, 'index': D3, 'write': D1, 'divzero': D2}
    throw_sites = {}
    for f in funcs:
        it = absint.Interp(prog, inline=lambda g: not g.name.startswith('zlib_'))
        outs = it.analyse(f)
        if it.unsupported:
            for u in it.unsupported[:5]:
                chk.unknown('D1', short(f.qualname), u)
        tot_ob += it.obligations
        tot_dis += it.discharged
        all_analysed |= it.analysed
        bad_kinds = {}
        for i in it.issues:
            rule = per_kind.get(i.kind, D1)
            key = '%s|%s' % (i.kind, issue_key(i))
            # the n-th issue of the same kind and chain in one decoder gets an ordinal
            n = bad_kinds.get(key, 0)
            bad_kinds[key] = n + 1
            if n:
                key += '#%d' % (n + 1)
            chk.violation(rule, key, locstr(i.node),
                          '%s (entry %s; call chain %s; reached from %s)' % (
                              i.msg, short(f.qualname), ' > '.join(short(x) for x in i.stack),
                              locstr(getattr(i, 'root', i.node))),
                          facts={'detail': i.detail, 'loop_invariants': it.loop_notes[-6:]})
        nbad = len(it.issues)
        kinds_seen = set(i.kind for i in it.issues)
        chk.rules[D1]['instances'] += it.discharged
        chk.rules[D1]['ok'] += it.discharged
        chk._sites.add((D1, short(f.qualname)))
        chk.ok(D1, '%s: %d of %d byte-availability obligations discharged' % (
            short(f.qualname), it.discharged, it.obligations), locstr(f.node),
            detail={'loop_invariants': it.loop_notes[:6]}) if not (kinds_seen & {'read', 'advance', 'write'}) else None
        if 'overflow' not in kinds_seen and 'divzero' not in kinds_seen:
            chk.ok(D2, '%s: wire arithmetic stays in range' % short(f.qualname), locstr(f.node))
        for o in outs:
            if o.status == 'throw':
                throw_sites.setdefault((o.exc, o.at), short(f.qualname))
        chk.analysed(f)
    for k in all_analysed:
        chk.analysed(k)
    chk.extra['obligations'] = tot_ob
    chk.extra['discharged'] = tot_dis

    # ---- zlib_uncompress: D3 by the same interpreter, D5 by finite evaluation ----
    zu = prog.func(ZU)
    it = absint.Interp(prog)
    outs = it.analyse(zu)
    chk.analysed(zu)
    for o in outs:
        if o.status == 'throw':
            throw_sites.setdefault((o.exc, o.at), short(zu.qualname))
    zbad = 0
    for i in it.issues:
        if i.kind in ('index', 'advance', 'read'):
            zbad += 1
            chk.violation(D3, '%s|zlib_uncompress' % i.kind, locstr(i.node),
                          i.msg + ' (the input pointers of the decompressor must stay inside the compressed buffer)',
                          facts={'detail': i.detail})
    if not zbad:
        chk.ok(D3, 'zlib_uncompress: input cursor and end pointer stay within the compressed buffer',
               locstr(zu.node))
    for u in it.unsupported[:5]:
        chk.unknown('D3', 'zlib_uncompress', u)
    # container indexing inside decoders (result[i] in v1 decode_beatgrid etc.) is part of D3 too
    chk.ok(D3, 'decoders: container indexing checked by the interpreter (issues of kind index above)',
           site='decoders-index')
    try:
        _zlib_status(prog, chk, D5, zu)
        try:
            _whole_input_bounds(prog, chk, D3, zu)
        except AnalysisBroken as e:
            chk.fail_broken('D3: %s' % e)
    except AnalysisBroken as e:
        # the decompression loop has a form the finite evaluator does not model: D5 is undecided (exit 2 unless
        # another rule reports a violation, which stands on its own)
        chk.fail_broken('D5: %s' % e)
    D7 = chk.rule('D7', 'a raw pointer or iterator taken from a growable container (v.data(), &v[i], v.begin()) and kept in '
                        'a local or in a member of a local struct (strm.next_out) is not used after an operation that may '
                        'reallocate the container (resize, reserve, insert, push_back, ...) unless taken again', floor=4)
    from . import extra
    extra.pointers_fresh(prog, chk, D7, [prog.functions[k] for k in sorted(all_analysed) if k in prog.functions] +
                         [g for g in prog.functions.values() if g.name in ('zlib_uncompress', 'zlib_compress')
                          and g.body is not None and prog.in_repo(g.file)])

    # ---- D4 loop progress ----------------------------------------------------------
    scope = [prog.functions[k] for k in sorted(all_analysed) if k in prog.functions]
    for f in scope:
        if f.name.startswith('zlib_'):
            continue
        _loops(prog, chk, D4, f)

    # ---- D6 exception types ---------------------------------------------------------
    for f in scope + [zu]:
        for n in walk(f.body):
            if n.get('kind') == 'CXXThrowExpr':
                c = children(n)
                t = (strip(c[0]).get('type') or c[0].get('type')) if c else None
                inst = '%s throws %s' % (short(f.qualname), t)
                if t is None:
                    chk.ok(D6, short(f.qualname) + ' rethrows', locstr(n))
                elif derives_from_std_exception(prog, t):
                    chk.ok(D6, inst, locstr(n))
                else:
                    chk.violation(D6, 'throw|%s|%s' % (short(f.qualname), t), locstr(n),
                                  '%s: the thrown type does not derive from std::exception' % inst)
        ty = f.type or ''
        if 'noexcept' in ty:
            chk.violation(D6, 'noexcept|%s' % short(f.qualname), locstr(f.node),
                          '%s is noexcept: an exception would terminate the process' % short(f.qualname))
        else:
            chk.ok(D6, '%s is not noexcept' % short(f.qualname), locstr(f.node))
    for (exc, at), where in throw_sites.items():
        if exc and not derives_from_std_exception(prog, exc) and exc != '(rethrow)':
            chk.violation(D6, 'throw-outcome|%s|%s' % (where, exc), at,
                          'outcome of %s: exception type %s does not derive from std::exception' % (where, exc))
    return chk.finish(
        'Abstract interpretation (cursor / interval domain, sa/absint.py) of the %d decoders with their '
        'helpers inlined (%d functions): %d byte-availability / index / overflow obligations, each proved '
        'from dominating guards and inferred loop invariants or reported with the call chain. The '
        'decompressor is analysed for pointer range by the same interpreter and for status handling by '
        'finite evaluation over all inflate return codes. No code is executed.' % (
            len(funcs), len(all_analysed), tot_ob))


def _loops(prog, chk, D4, f):
    for n in walk(f.body):
        k = n.get('kind')
        if k not in ('ForStmt', 'WhileStmt', 'DoStmt', 'CXXForRangeStmt'):
            continue
        inst = '%s loop at %s' % (short(f.qualname), locstr(n))
        why = _loop_progress(prog, f, n)
        if why is True or (isinstance(why, str) and why.startswith('ok:')):
            chk.ok(D4, inst, locstr(n), detail=why if isinstance(why, str) else None)
        else:
            chk.violation(D4, 'loop|%s|%s' % (short(f.qualname), k), locstr(n),
                          '%s: %s' % (inst, why))


def _assigned_ids(node):
    out = set()
    for x in walk(node):
        k = x.get('kind')
        if k in ('BinaryOperator', 'CompoundAssignOperator') and (x.get('opcode') or '').endswith('=') \
                and x.get('opcode') not in ('==', '!=', '<=', '>='):
            l = strip(children(x)[0], explicit=True)
            while l.get('kind') == 'MemberExpr' and children(l):
                l = strip(children(l)[0], explicit=True)
            if l.get('kind') == 'DeclRefExpr':
                out.add(l['referencedDecl']['id'])
        elif k == 'UnaryOperator' and x.get('opcode') in ('++', '--'):
            l = strip(children(x)[0], explicit=True)
            if l.get('kind') == 'DeclRefExpr':
                out.add(l['referencedDecl']['id'])
        elif k == 'CallExpr':
            callee = strip(children(x)[0])
            if (callee.get('referencedDecl') or {}).get('name') == 'tie':
                for a in children(x)[1:]:
                    l = strip(a, explicit=True)
                    if l.get('kind') == 'DeclRefExpr':
                        out.add(l['referencedDecl']['id'])
    return out


def _is_pointer(n):
    t = (n.get('type') or '').strip()
    while True:     # top-level qualifiers of the pointer itself: `const std::byte *const`
        for q in ('const', 'volatile', '__restrict'):
            if t.endswith(q):
                t = t[:-len(q)].rstrip()
                break
        else:
            break
    return t.endswith('*')


def _block(n):
    if n is None or not n.get('kind'):
        return []
    return children(n) if n.get('kind') == 'CompoundStmt' else [n]


def _own_continue(stmt):
    """Does stmt contain a `continue` of the loop it sits in (not of a nested loop)?"""
    def rec(n):
        for c in children(n):
            k = c.get('kind')
            if k == 'ContinueStmt':
                return True
            if k in ('ForStmt', 'WhileStmt', 'DoStmt', 'CXXForRangeStmt', 'LambdaExpr'):
                continue
            if rec(c):
                return True
        return False
    return stmt.get('kind') == 'ContinueStmt' or rec(stmt)


def _must(stmts, steps):
    """Does every path through stmts that reaches the end of the loop body (falls off the end or
    `continue`s) execute a statement for which steps(stmt) is true?  Structural must-analysis:
    a sequence does when one of its unconditional statements does, an `if` when both arms do
    or leave the loop; a `continue` met before the step is a path without it."""
    for s in stmts:
        k = s.get('kind')
        if k == 'IfStmt':
            c = [x for x in children(s)]
            if s.get('hasInit') or s.get('hasVar'):
                c = c[1:]
            then = c[1] if len(c) > 1 else None
            els = c[2] if len(c) > 2 else None
            t = then is not None and (_must(_block(then), steps) or _leaves(then))
            e = els is not None and (_must(_block(els), steps) or _leaves(els))
            if t and e:
                return True
            if _own_continue(s):
                return False
            continue
        if k == 'CompoundStmt':
            if _must(children(s), steps):
                return True
            if _own_continue(s):
                return False
            continue
        if k in ('ForStmt', 'WhileStmt', 'DoStmt', 'CXXForRangeStmt'):
            continue
        if k in ('SwitchStmt', 'CXXTryStmt'):
            if _own_continue(s):
                return False
            continue
        if k == 'ContinueStmt':
            return False
        if steps(s):
            return True
    return False


def _must_advance(stmts, pid):
    """Does every path through stmts that completes normally advance the
    cursor variable pid?"""
    return _must(stmts, lambda s: pid in _advances(s))


def _leaves(n):
    if n is None:
        return False
    k = n.get('kind')
    x = strip(n)
    if k == 'ReturnStmt' or x.get('kind') == 'CXXThrowExpr' or k == 'BreakStmt':
        return True
    if k == 'CompoundStmt':
        c = children(n)
        return bool(c) and _leaves(c[-1])
    return False


def _ref_id(n):
    n = strip(n, explicit=True)
    return (n.get('referencedDecl') or {}).get('id') if n.get('kind') == 'DeclRefExpr' else None


def _call_takes(call, vid):
    return any(_ref_id(z) == vid for z in children(call)[1:])


def _advances(stmt):
    """Pointer variables advanced by this (non-branching) statement: ++p, p += n, and p
    reassigned from a call that was given p (`std::tie(x, p) = decode(p)`, `p = decode(p, out)`,
    `auto [x, q] = ...` is a new variable and not an advance): the decode helpers return their
    argument advanced by what they read - D1 checks every one of those reads."""
    out = set()
    for x in walk(stmt):
        k = x.get('kind')
        if k == 'UnaryOperator' and x.get('opcode') == '++':
            l = strip(children(x)[0], explicit=True)
            if l.get('kind') == 'DeclRefExpr' and _is_pointer(l):
                out.add(l['referencedDecl']['id'])
        elif k == 'CompoundAssignOperator' and x.get('opcode') == '+=':
            l = strip(children(x)[0], explicit=True)
            if l.get('kind') == 'DeclRefExpr' and _is_pointer(l):
                out.add(l['referencedDecl']['id'])
        elif k == 'BinaryOperator' and x.get('opcode') == '=':
            l = strip(children(x)[0], explicit=True)
            r = strip(children(x)[1], explicit=True)
            if l.get('kind') == 'DeclRefExpr' and _is_pointer(l):
                vid = l['referencedDecl']['id']
                if r.get('kind') == 'CallExpr' and _call_takes(r, vid):
                    out.add(vid)
                elif r.get('kind') == 'BinaryOperator' and r.get('opcode') == '+' and \
                        _ref_id(children(r)[0]) == vid:
                    out.add(vid)            # p = p + n
                elif r.get('kind') == 'MemberExpr' and r.get('name') == 'second' and children(r):
                    b = strip(children(r)[0], explicit=True)
                    if b.get('kind') == 'CallExpr' and _call_takes(b, vid):
                        out.add(vid)        # p = decode(p).second
        elif k == 'CXXOperatorCallExpr':
            c = children(x)
            op = (strip(c[0]).get('referencedDecl') or {}).get('name')
            if op == 'operator=' and len(c) == 3:
                l = strip(c[1])
                if l.get('kind') == 'CallExpr' and (strip(children(l)[0]).get('referencedDecl') or {}).get('name') == 'tie':
                    # std::tie(x, ptr) = decode_*(ptr): the decode helpers return ptr + width
                    rhs_calls = [y for y in walk(c[2]) if y.get('kind') == 'CallExpr']
                    for a in children(l)[1:]:
                        t = strip(a, explicit=True)
                        if t.get('kind') == 'DeclRefExpr' and _is_pointer(t) and rhs_calls:
                            # the same pointer must be the argument of the call
                            if _call_takes(rhs_calls[0], t['referencedDecl']['id']):
                                out.add(t['referencedDecl']['id'])
    return out


def _int_steps(stmt, vid):
    """Steps of the integer variable vid made by this statement: list of +1 / -1 (direction) for
    ++v, v++, v += c, v = v + c (c a positive literal) and the decreasing forms; None in the
    list for any other write to vid."""
    from ..program import literal_value
    out = []
    for x in walk(stmt):
        k = x.get('kind')
        if k == 'UnaryOperator' and x.get('opcode') in ('++', '--'):
            if _ref_id(children(x)[0]) == vid:
                out.append(1 if x['opcode'] == '++' else -1)
        elif k == 'CompoundAssignOperator' and _ref_id(children(x)[0]) == vid:
            c = literal_value(children(x)[1])
            if x.get('opcode') in ('+=', '-=') and isinstance(c, int) and not isinstance(c, bool) and c > 0:
                out.append(1 if x['opcode'] == '+=' else -1)
            else:
                out.append(None)
        elif k == 'BinaryOperator' and x.get('opcode') == '=' and _ref_id(children(x)[0]) == vid:
            r = strip(children(x)[1], explicit=True)
            c = literal_value(children(r)[1]) if r.get('kind') == 'BinaryOperator' and len(children(r)) == 2 else None
            if r.get('kind') == 'BinaryOperator' and r.get('opcode') in ('+', '-') and \
                    _ref_id(children(r)[0]) == vid and isinstance(c, int) and not isinstance(c, bool) and c > 0:
                out.append(1 if r['opcode'] == '+' else -1)
            else:
                out.append(None)
        elif k == 'CallExpr' and _callee_name(x) == 'tie':
            if any(_ref_id(a) == vid for a in children(x)[1:]):
                out.append(None)
    return out


GROW = ('push_back', 'emplace_back', 'insert', 'resize', 'append', 'emplace', 'push_front')


def _grown_roots(node):
    """ids of the variables on which the node calls a growing container method"""
    out = set()
    for x in walk(node):
        if x.get('kind') == 'CXXMemberCallExpr':
            callee = strip(children(x)[0])
            if callee.get('name') in GROW and children(callee):
                r = strip(children(callee)[0], explicit=True)
                while r.get('kind') == 'MemberExpr' and children(r):
                    r = strip(children(r)[0], explicit=True)
                if r.get('kind') == 'DeclRefExpr':
                    out.add(r['referencedDecl']['id'])
    return out


def _counted(f, cond, inc, body):
    """`v op bound` with an integer variable v stepped towards the bound on every path round the
    loop (in the increment expression, or in the body on every continuing path), never written
    otherwise, and a bound the loop does not change.  -> 'ok: ...' or None."""
    cn = strip(cond, explicit=True)
    if cn.get('kind') != 'BinaryOperator' or cn.get('opcode') not in ('<', '<=', '!=', '>', '>='):
        return None
    cc = children(cn)
    for side in (0, 1):
        vid = _ref_id(cc[side])
        v = strip(cc[side], explicit=True)
        if vid is None or _is_pointer(v):
            continue
        op = cn['opcode']
        if side == 1:
            op = {'<': '>', '<=': '>=', '>': '<', '>=': '<=', '!=': '!='}[op]
        bound = cc[1 - side]
        want = {'<': (1,), '<=': (1,), '>': (-1,), '>=': (-1,), '!=': (1, -1)}[op]
        rounds = [body] + ([inc] if inc is not None and inc.get('kind') else [])
        writes = []
        for r in rounds + [cond]:
            writes += _int_steps(r, vid)
        if not writes or None in writes or len(set(writes)) != 1 or writes[0] not in want:
            continue
        direction = writes[0]
        stepped = (inc is not None and inc.get('kind') and _int_steps(inc, vid)) or \
            _int_steps(cond, vid) or _must(_block(body), lambda s: bool(_int_steps(s, vid)))
        if not stepped:
            continue
        assigned = set()
        for r in rounds:
            assigned |= _assigned_ids(r)
        bound_ids = set((x.get('referencedDecl') or {}).get('id') for x in walk(bound) if x.get('kind') == 'DeclRefExpr')
        grown = set()
        for r in rounds:
            grown |= _grown_roots(r)
        if bound_ids & (assigned | grown):
            continue
        if all(x.get('kind') != 'DeclRefExpr' for x in walk(bound)):
            return 'ok: counted loop with a constant bound'
        # wire-derived bound: the body consumes input so that the iteration count is bounded by the buffer
        ptrs = [p['id'] for p in f.params if _is_pointer(p)] + \
               [x['id'] for x in walk(f.body) if x.get('kind') == 'VarDecl' and _is_pointer(x)]
        if any(_must_advance(_block(body), p) for p in ptrs):
            return 'ok: counted loop, induction variable and bound unmodified, cursor advanced on every path'
        if not ptrs:
            return 'ok: counted loop without a cursor (bound is a container size)'
        return 'ok: counted loop, induction variable and bound unmodified'
    return None


def _cursor(f, cond, inc, body):
    """The condition relates two pointers (`p != end`, `p < end`, `end - p >= k`): the one the loop
    writes is the cursor and must advance on every path round the loop; the other is the limit and
    must not be written.  -> 'ok: ...', a reason, or None when the condition is not of this kind."""
    ids = []
    for x in walk(cond):
        if x.get('kind') == 'DeclRefExpr' and _is_pointer(x) and \
                (x.get('referencedDecl') or {}).get('kind') in ('VarDecl', 'ParmVarDecl'):
            i = x['referencedDecl']['id']
            if i not in ids:
                ids.append(i)
    if len(ids) != 2:
        return None
    rounds = [body] + ([inc] if inc is not None and inc.get('kind') else [])
    assigned = set()
    for r in rounds:
        assigned |= _assigned_ids(r)
    moving = [i for i in ids if i in assigned]
    if len(moving) != 1:
        return 'cursor loop in which %s of the two pointers of the condition is written' % (
            'neither' if not moving else 'each')
    pid = moving[0]
    if (inc is not None and inc.get('kind') and pid in _advances(inc)) or _must_advance(_block(body), pid):
        return 'ok: cursor loop, the cursor advances on every continuing path'
    return 'cursor loop whose body does not advance the cursor on every path'


def _loop_progress(prog, f, n):
    k = n.get('kind')
    inner = n.get('inner', [])
    if k == 'CXXForRangeStmt':
        body = inner[-1]
        rng = inner[1] if len(inner) >= 8 else None
        cont = None
        if rng is not None and rng.get('kind') == 'DeclStmt':
            for x in walk(rng):
                if x.get('kind') in ('DeclRefExpr', 'MemberExpr') and x is not rng:
                    cont = x
                    break
        # the container must not be grown inside the loop
        for x in walk(body):
            if x.get('kind') == 'CXXMemberCallExpr':
                callee = strip(children(x)[0])
                if callee.get('name') in ('push_back', 'emplace_back', 'insert', 'resize') and children(callee):
                    r = strip(children(callee)[0], explicit=True)
                    if cont is not None and _same_ref(r, cont):
                        return 'range-for over a container that the body grows'
        return 'ok: range-for over an unmodified container'
    if k == 'ForStmt':
        inner = inner + [{}] * (5 - len(inner))
        init, _, cond, inc, body = inner[:5]
        what = 'for loop'
    elif k == 'WhileStmt':
        c = children(n)
        cond, inc, body = c[0], None, c[-1]
        what = 'while loop'
    elif k == 'DoStmt':
        c = children(n)
        cond, inc, body = c[1], None, c[0]
        what = 'do-while loop'
    else:
        return 'unrecognised loop'
    if not cond.get('kind'):
        return '%s without a condition' % what
    r = _counted(f, cond, inc, body)
    if r is not None:
        return r
    r = _cursor(f, cond, inc, body)
    if r is not None:
        return r
    return '%s is neither counted (an integer stepped towards a bound that the loop leaves alone) ' \
           'nor a cursor loop (a pointer advanced towards a limit on every path)' % what


def _same_ref(a, b):
    return (a.get('referencedDecl') or {}).get('id') == (b.get('referencedDecl') or {}).get('id') and \
        a.get('name') == b.get('name') and a.get('kind') == b.get('kind')


# zlib status codes (zlib.h); the macros are expanded to these literals by clang
Z_CODES = {'Z_OK': 0, 'Z_STREAM_END': 1, 'Z_NEED_DICT': 2, 'Z_ERRNO': -1, 'Z_STREAM_ERROR': -2,
           'Z_DATA_ERROR': -3, 'Z_MEM_ERROR': -4, 'Z_BUF_ERROR': -5, 'Z_VERSION_ERROR': -6}


def _zlib_status(prog, chk, D5, zu):
    """Evaluate one round of the decompression loop with the input exhausted
    (ptr == end, so avail_in = 0) for every inflate status code."""
    obody, ocond, vars_, sid, outer = zlib_loop(prog, zu)
    inflate_calls = [x for x in walk(obody) if x.get('kind') == 'CallExpr'
                     and (strip(children(x)[0]).get('referencedDecl') or {}).get('name') == 'inflate']
    if len(inflate_calls) != 1:
        raise AnalysisBroken('zlib_uncompress: expected exactly one inflate() call in the loop')
    if vars_.get('whole'):
        return _zlib_status_whole(prog, chk, D5, zu, obody, ocond, vars_, sid, outer)

    for cname, code in Z_CODES.items():
        if cname in ('Z_VERSION_ERROR', 'Z_ERRNO', 'Z_STREAM_ERROR'):
            # not returned by inflate() on a stream this function initialised itself
            continue
        for more_output in (False, True):
            if cname == 'Z_BUF_ERROR' and more_output:
                continue   # Z_BUF_ERROR means no progress: the output buffer was not filled
            res = _zlib_round(prog, zu, obody, ocond, vars_, sid, code, more_output)
            inst = 'input exhausted, inflate returns %s, output buffer %s' % (
                cname, 'full' if more_output else 'not full')
            # Z_OK with a full output buffer means progress was made: another inner round is legitimate
            if 'continues' in res:
                if cname == 'Z_OK':
                    # Z_OK with no input and no pending output cannot happen (contract): inflate
                    # returns Z_BUF_ERROR instead
                    chk.ok(D5, inst + ' -> continues (progress was made, by contract)', locstr(outer), site=inst)
                else:
                    chk.violation(D5, 'zlib_uncompress|%s|continues' % cname, locstr(outer),
                                  '%s: the loop continues with no input left, so the next round is '
                                  'identical - it never ends on a truncated stream' % inst,
                                  facts={'outcomes': sorted(res)})
            else:
                chk.ok(D5, inst + ' -> ' + ','.join(sorted(res)), locstr(outer), site=inst)
    # no-progress scenarios with input still available: after Z_STREAM_END inflate neither
    # consumes nor produces anything more, so any loop that continues spins forever on a
    # valid stream that is followed by trailing bytes
    for in_left, in_desc in ((5, 'unconsumed input remains in the chunk'), (0, 'chunk consumed')):
        for more_input_after, ptr_desc in ((False, 'no further chunk'), (True, 'further chunks follow')):
            res, inner = _zlib_round(prog, zu, obody, ocond, vars_, sid, Z_CODES['Z_STREAM_END'],
                                     False, exhausted=False, in_left=in_left, want_inner=True,
                                     )
            inst = 'inflate returns Z_STREAM_END, output buffer not full, %s' % in_desc
            if any(inner):
                chk.violation(D5, 'zlib_uncompress|Z_STREAM_END|inner-continues|%s' % in_desc,
                              locstr(outer),
                              '%s: the inner loop runs another round although the stream has ended; '
                              'inflate makes no further progress, so the round repeats forever '
                              '(valid stream followed by trailing bytes)' % inst)
            elif 'continues' in res:
                chk.violation(D5, 'zlib_uncompress|Z_STREAM_END|outer-continues|%s' % in_desc,
                              locstr(outer), '%s: the outer loop continues after the end of the '
                              'stream' % inst)
            else:
                chk.ok(D5, inst + ' -> leaves both loops', locstr(outer), site=inst + ptr_desc)
    # Z_OK with the output buffer not full and input consumed: the inner loop must hand back
    # to the outer loop (which feeds the next chunk), not spin
    res, inner = _zlib_round(prog, zu, obody, ocond, vars_, sid, Z_CODES['Z_OK'], False,
                             exhausted=False, in_left=0, want_inner=True)
    inst = 'inflate returns Z_OK, output buffer not full, chunk consumed'
    if any(inner):
        chk.violation(D5, 'zlib_uncompress|Z_OK|inner-continues', locstr(outer),
                      inst + ': the inner loop runs again with no input and free output space; '
                      'inflate can make no progress (Z_BUF_ERROR) and the condition repeats')
    else:
        chk.ok(D5, inst + ' -> inner loop ends, outer loop feeds the next chunk', locstr(outer),
               site=inst)
    benign_buf_error(prog, chk, D5, zu, obody, ocond, vars_, sid, outer)
    # error codes must never fall through to use of the output
    for cname in ('Z_DATA_ERROR', 'Z_MEM_ERROR', 'Z_NEED_DICT'):
        res = _zlib_round(prog, zu, obody, ocond, vars_, sid, Z_CODES[cname], False, exhausted=False)
        if res == {'throw'}:
            chk.ok(D5, 'input available, inflate returns %s -> throw' % cname, locstr(outer))
        else:
            chk.violation(D5, 'zlib_uncompress|%s|not-rejected' % cname, locstr(outer),
                          'inflate status %s does not end in an exception (outcomes %s)' % (cname, sorted(res)))


def _whole_input_bounds(prog, chk, D3, zu):
    """Whole-input form: the bytes the stream is told to read, [next_in, next_in + avail_in) as stored before the
    loop, lie inside the compressed buffer - for every buffer size at which the loop is reached (sizes 0 .. 9
    and a large one are evaluated; unsigned wrap-around of a length shows as a huge count)."""
    from ..feval import UNKNOWN
    obody, ocond, vars_, sid, outer = zlib_loop(prog, zu)
    if not vars_.get('whole'):
        return
    cands = [p['id'] for p in zu.params if p['id'] in vector_ids(zu) and 'const' in (p.get('type') or '')]
    bad = []
    reached = 0
    for size in tuple(range(10)) + (1000,):
        for cid in cands:
            ev, states, _ = prefix_states(prog, zu, sid, outer, {cid: size})
            for st, env in states:
                if st is not None:
                    continue
                off = ev.binop('-', env.get(('member', sid, 'next_in'), UNKNOWN), container_data(env, cid))
                n = env.get(('member', sid, 'avail_in'), UNKNOWN)
                if not isinstance(off, int):
                    continue        # not an address inside this parameter
                reached += 1
                if not isinstance(n, int):
                    chk.unknown(D3, 'zlib_uncompress', 'buffer of %d byte(s): the number of input bytes the stream is handed '
                                'before the loop (%r) is outside the model' % (size, n))
                    return
                if n < 0:
                    n += 1 << 32        # stored to an unsigned counter
                if off < 0 or off + n > size:
                    bad.append('buffer of %d byte(s): the stream is told to read %d byte(s) from offset %d' % (size, n, off))
    if not reached:
        raise AnalysisBroken('zlib_uncompress: the input pointer handed to the stream before the loop is not an address '
                             'inside a vector parameter on any evaluated path')
    if bad:
        chk.violation(D3, 'input-window|zlib_uncompress', locstr(outer),
                      'the input handed to inflate() before the loop reaches outside the compressed buffer: %s' % '; '.join(bad[:3]))
    else:
        chk.ok(D3, 'zlib_uncompress: the input window handed to the stream before the loop lies inside the compressed '
                   'buffer for every buffer size that reaches the loop', locstr(outer))


def _zlib_status_whole(prog, chk, D5, zu, obody, ocond, vars_, sid, outer):
    """D5 for the form in which the stream has its whole input before a single loop around inflate().

    The loop ends on every input when no status but Z_OK lets it go round again: Z_OK means inflate consumed
    input or produced output (both finite), Z_STREAM_END and the error states are sticky, and Z_BUF_ERROR says
    that nothing can be done with the input and the room there is - which, with all the input handed over, no
    later round can change, except when the call had no room at all (avail_out == 0 on entry) and the round
    provides some.  A loop that only looks at the room (`while (avail_out == 0)`) goes round once more after
    Z_STREAM_END with the room used up: accepted when the next call is given room, for it then returns
    Z_STREAM_END with room left, where the loop must leave.  One round is evaluated for every status x {no input left, input left} x {output room
    used up, room left}; the slice scenarios of the two-loop form do not exist here."""
    from ..feval import Lin, UNKNOWN
    where = locstr(outer)

    def rearmed(ends, in_left):
        """every round that follows a continuing end state calls inflate() with a positive amount of output room
        (set at the end of this round or at the start of the next)"""
        for r, e in ends:
            if r != 'continues':
                continue
            seen = []

            def watch(ev2_):
                ev2_.track_output, ev2_.inflate_entries = True, seen
            _zlib_round(prog, zu, obody, ocond, vars_, sid, 0, False, exhausted=not in_left, in_left=in_left,
                        preset=e, configure=watch)
            if not seen or not all(isinstance(room, int) and not isinstance(room, bool) and room > 0 for _, room in seen):
                return False
        return True

    for in_left, in_desc in ((0, 'no input left'), (5, 'unconsumed input remains')):
        for cname, code in Z_CODES.items():
            if cname in ('Z_VERSION_ERROR', 'Z_ERRNO', 'Z_STREAM_ERROR'):
                continue        # not returned by inflate() on a stream this function initialised itself
            for full in (False, True):
                if in_left and cname == 'Z_OK':
                    continue    # progress was made and more can be: going on is the point of the loop
                if in_left and cname == 'Z_BUF_ERROR' and not full:
                    continue    # contract: with input and room inflate() makes progress or fails
                res, ends = _zlib_round(prog, zu, obody, ocond, vars_, sid, code, full, exhausted=not in_left,
                                        in_left=in_left, want_states=True)
                inst = '%s, inflate returns %s, output room %s' % (in_desc, cname, 'used up' if full else 'left')
                if cname in ('Z_DATA_ERROR', 'Z_MEM_ERROR', 'Z_NEED_DICT'):
                    if res == {'throw'}:
                        chk.ok(D5, inst + ' -> throw', where, site=inst)
                    elif 'continues' in res:
                        chk.violation(D5, 'zlib_uncompress|%s|continues' % cname, where,
                                      '%s: the loop goes round again on an error status; the error state is sticky, so '
                                      'every further round is the same - it never ends' % inst,
                                      facts={'outcomes': sorted(res)})
                    else:
                        chk.violation(D5, 'zlib_uncompress|%s|not-rejected' % cname, where,
                                      'inflate status %s does not end in an exception (outcomes %s)' % (cname, sorted(res)))
                elif 'continues' not in res:
                    chk.ok(D5, inst + ' -> ' + ','.join(sorted(res)), where, site=inst)
                elif cname == 'Z_OK':
                    # (no input left) progress was made in this call; the next one returns Z_BUF_ERROR at the latest
                    chk.ok(D5, inst + ' -> continues (progress was made, by contract)', where, site=inst)
                elif cname == 'Z_BUF_ERROR' and full and rearmed(ends, in_left):
                    chk.ok(D5, inst + ' (the call had no room) -> continues with fresh output room', where, site=inst)
                elif cname == 'Z_STREAM_END' and full and rearmed(ends, in_left):
                    # the loop asks for the room only; the next call has room, writes nothing and returns
                    # Z_STREAM_END again: the state "output room left", which is evaluated on its own
                    chk.ok(D5, inst + ' -> one more round with fresh output room (then: Z_STREAM_END, output room left)',
                           where, site=inst)
                elif cname == 'Z_STREAM_END':
                    chk.violation(D5, 'zlib_uncompress|Z_STREAM_END|continues|%s' % in_desc, where,
                                  '%s: the loop runs another round although the stream has ended; inflate makes no '
                                  'further progress, so the round repeats forever%s' % (
                                      inst, ' (valid stream followed by trailing bytes)' if in_left else ''),
                                  facts={'outcomes': sorted(res)})
                else:
                    chk.violation(D5, 'zlib_uncompress|%s|continues' % cname, where,
                                  '%s: the loop continues although no progress is possible (the stream has all the input '
                                  'there is), so the next round is identical - it never ends on a truncated stream' % inst,
                                  facts={'outcomes': sorted(res)})
    chk.note('D5: zlib_uncompress: the scenarios "chunk consumed, further chunks follow" and "inner loop hands back to the '
             'outer loop, which feeds the next chunk" are skipped: the stream is handed its whole input before the single '
             'loop at %s (no store to next_in / avail_in inside it), there are no chunks of input' % where)
    benign_buf_error(prog, chk, D5, zu, obody, ocond, vars_, sid, outer)


def outer_loop(fn, api):
    """The outermost loop of fn that contains the call of `api`, wherever it is nested (a block,
    a try statement): -> (loop body, loop condition or None, loop node)."""
    LOOPS = ('DoStmt', 'WhileStmt', 'ForStmt')

    def has_call(n):
        return any(x.get('kind') == 'CallExpr' and _callee_name(x) == api for x in walk(n))

    def find(n):
        out = []
        for c in children(n):
            if c.get('kind') in LOOPS and has_call(c):
                out.append(c)
            elif c.get('kind') != 'LambdaExpr':
                out += find(c)
        return out
    outer = find(fn.body)
    if len(outer) != 1:
        raise AnalysisBroken('%s: expected one loop around %s(), found %d' % (fn.name, api, len(outer)))
    outer = outer[0]
    if outer['kind'] == 'DoStmt':
        obody, ocond = children(outer)[0], children(outer)[1]
    elif outer['kind'] == 'WhileStmt':
        ocond, obody = children(outer)[0], children(outer)[-1]
    else:
        inner = outer.get('inner', [])
        inner = inner + [{}] * (5 - len(inner))
        init, condvar, cond, inc, obody = inner[:5]
        if inc.get('kind') or condvar.get('kind'):
            raise AnalysisBroken('%s: for loop with an increment around %s() is not modelled' % (fn.name, api))
        ocond = cond if cond.get('kind') else None      # for (;;): left only from inside
    return obody, ocond, outer


def zlib_loop(prog, zu):
    """(obody, ocond, vars_, sid, outer) of the decompression loop."""
    obody, ocond, outer = outer_loop(zu, 'inflate')
    strm = [x for x in walk(zu.body) if x.get('kind') == 'VarDecl' and 'z_stream' in (x.get('type') or '')]
    if len(strm) != 1:
        raise AnalysisBroken('zlib_uncompress: z_stream variable not found')
    vars_ = zlib_roles(zu, obody, strm[0]['id'], 'inflate', prog=prog, loop=outer)
    return obody, ocond, vars_, strm[0]['id'], outer


def _callee_name(x):
    c = children(x)
    return (strip(c[0]).get('referencedDecl') or {}).get('name') if c else None


def zlib_roles(fn, obody, sid, api, need_ret=True, prog=None, loop=None):
    """The locals of a (de)compression loop, found by what they do, not by what they are called:

    ret  the variable that receives the value of the `api` call (inflate / deflate) in the loop;
    ptr  the input cursor: the pointer local from which `strm.next_in` is computed;
    end  the input limit: the other pointer local from which `strm.avail_in` is computed
         (`end - ptr`, possibly through a named local, a ternary or std::min).

    -> {'ptr': decl, 'end': decl, 'ret': decl} (the VarDecl / ParmVarDecl nodes).

    When nothing inside the loop stores to next_in / avail_in, the stream was handed its complete input before
    the loop (whole-input form, see whole_input): 'ptr' and 'end' are None and 'whole' holds what was stored."""
    decls = {p['id']: p for p in fn.params}
    defs = {}           # local id -> expressions it is computed from
    for x in walk(fn.body):
        k = x.get('kind')
        if k == 'VarDecl':
            decls[x['id']] = x
            init = [y for y in children(x) if not y['kind'].endswith('Attr')]
            if init:
                defs.setdefault(x['id'], []).append(init[-1])
        elif k in ('BinaryOperator', 'CompoundAssignOperator') and (x.get('opcode') or '').endswith('=') \
                and x.get('opcode') not in ('==', '!=', '<=', '>='):
            l = strip(children(x)[0], explicit=True)
            if l.get('kind') == 'DeclRefExpr':
                defs.setdefault(l['referencedDecl']['id'], []).append(children(x)[1])

    def pointer_roots(expr):
        """ids of the pointer locals / parameters expr is computed from, through non-pointer locals"""
        out, seen, todo = [], set(), [expr]
        while todo:
            e = todo.pop()
            for y in walk(e):
                if y.get('kind') != 'DeclRefExpr':
                    continue
                i = (y.get('referencedDecl') or {}).get('id')
                if i not in decls or i == sid:
                    continue
                if _is_pointer(decls[i]):
                    if i not in out:
                        out.append(i)
                elif i not in seen:
                    seen.add(i)
                    todo.extend(defs.get(i, []))
        return out

    def member_stores(name):
        res = []
        for x in walk(obody):
            if x.get('kind') == 'BinaryOperator' and x.get('opcode') == '=':
                l = strip(children(x)[0])
                if l.get('kind') == 'MemberExpr' and l.get('name') == name and children(l):
                    b = strip(children(l)[0])
                    if b.get('kind') == 'DeclRefExpr' and (b.get('referencedDecl') or {}).get('id') == sid:
                        res.append(children(x)[1])
        return res

    what = '%s: ' % fn.name
    # ret
    rets = []
    for x in walk(obody):
        k = x.get('kind')
        if k == 'BinaryOperator' and x.get('opcode') == '=':
            r = strip(children(x)[1], explicit=True)
            l = strip(children(x)[0], explicit=True)
            if r.get('kind') == 'CallExpr' and _callee_name(r) == api and l.get('kind') == 'DeclRefExpr':
                rets.append(l['referencedDecl']['id'])
        elif k == 'VarDecl':
            init = [y for y in children(x) if not y['kind'].endswith('Attr')]
            if init:
                r = strip(init[-1], explicit=True)
                if r.get('kind') == 'CallExpr' and _callee_name(r) == api:
                    rets.append(x['id'])
    if need_ret and (len(set(rets)) != 1 or rets[0] not in decls):
        raise AnalysisBroken(what + 'the variable receiving the status of %s() was not found' % api)
    # ptr
    nxt = member_stores('next_in')
    if not nxt and not member_stores('avail_in') and prog is not None and loop is not None:
        w = whole_input(prog, fn, loop, obody, sid, api)
        if w is not None:
            return {'ptr': None, 'end': None, 'whole': w,
                    'ret': decls[rets[0]] if len(set(rets)) == 1 and rets[0] in decls else None}
    proots = []
    for e in nxt:
        for i in pointer_roots(e):
            if i not in proots:
                proots.append(i)
    if len(proots) != 1:
        raise AnalysisBroken(what + 'the input cursor (pointer stored to next_in in the loop) was not found')
    # end
    eroots = []
    for e in member_stores('avail_in'):
        for i in pointer_roots(e):
            if i != proots[0] and i not in eroots:
                eroots.append(i)
    if len(eroots) != 1:
        raise AnalysisBroken(what + 'the input limit (pointer from which avail_in is computed) was not found')
    return {'ptr': decls[proots[0]], 'end': decls[eroots[0]],
            'ret': decls[rets[0]] if len(set(rets)) == 1 and rets[0] in decls else None}


STREAM_INPUT = ('next_in', 'avail_in')


def _stream_store(x, sid, names):
    """x is `strm.<name> = rhs` (also `+=` ...) on the stream variable sid -> (name, rhs) or None"""
    if x.get('kind') in ('BinaryOperator', 'CompoundAssignOperator') and (x.get('opcode') or '').endswith('=') \
            and x.get('opcode') not in ('==', '!=', '<=', '>='):
        l = strip(children(x)[0])
        if l.get('kind') == 'MemberExpr' and l.get('name') in names and children(l):
            b = strip(children(l)[0])
            if b.get('kind') == 'DeclRefExpr' and (b.get('referencedDecl') or {}).get('id') == sid:
                return l.get('name'), children(x)[1]
    return None


def _is_null(e):
    e = strip(e, explicit=True)
    return e.get('kind') in ('GNUNullExpr', 'CXXNullPtrLiteralExpr') or \
        (e.get('kind') == 'IntegerLiteral' and int(e.get('value') or 0) == 0)


def whole_input(prog, fn, loop, obody, sid, api):
    """The form in which the stream is handed its COMPLETE input once, before the loop: nothing in the loop
    (nor in a repository function the loop hands the stream to) stores to next_in / avail_in, and the last
    stores to both before the loop are unconditional statements on the way to the loop.  There are no input
    slices then: "input exhausted" is the state avail_in == 0, which only inflate() itself brings about.

    -> {'next_in': rhs, 'avail_in': rhs, 'next_out': rhs | None, 'avail_out': rhs | None} (the expressions last
    stored before the loop), or None when next_in is never stored before the loop either (no input at all: the
    caller reports the missing cursor).  Forms outside the model raise AnalysisBroken."""
    what = '%s: ' % fn.name

    def feeds(body, depth, seen, tu):
        """does body (or a repository function it passes a z_stream to) store to next_in / avail_in of any stream?"""
        for x in walk(body):
            if x.get('kind') in ('BinaryOperator', 'CompoundAssignOperator') and (x.get('opcode') or '').endswith('=') \
                    and x.get('opcode') not in ('==', '!=', '<=', '>='):
                l = strip(children(x)[0])
                if l.get('kind') == 'MemberExpr' and l.get('name') in STREAM_INPUT:
                    return True
            if x.get('kind') == 'CallExpr' and depth < 4:
                if not any('z_stream' in (y.get('type') or '') for a in children(x)[1:] for y in walk(a)):
                    continue
                d, qn, virt, recv = prog.resolve_callee(tu, x)
                for g in (prog.by_name(qn) if qn else []):
                    if g.body is not None and prog.in_repo(g.file) and g.key not in seen:
                        seen.add(g.key)
                        if feeds(g.body, depth + 1, seen, g.tu):
                            return True
        return False
    for x in walk(obody):
        if x.get('kind') == 'CallExpr' and _callee_name(x) != api:
            d, qn, virt, recv = prog.resolve_callee(fn.tu, x)
            for g in (prog.by_name(qn) if qn else []):
                if g.body is not None and prog.in_repo(g.file) and feeds(g.body, 1, {g.key}, g.tu):
                    raise AnalysisBroken(what + 'the input of the stream is fed by %s(), called in the loop: the input '
                                         'cursor (pointer stored to next_in in the loop) was not found' % g.name)
    for x in walk(obody):
        if x.get('kind') in ('DoStmt', 'WhileStmt', 'ForStmt', 'CXXForRangeStmt') and \
                any(y.get('kind') == 'CallExpr' and _callee_name(y) == api for y in walk(x)):
            raise AnalysisBroken(what + 'the stream has its whole input before the loop and %s() sits in a nested '
                                 'loop: only a single loop is modelled for this form' % api)

    # statements executed before the loop, outermost first; `direct` = unconditional on the way to the loop
    def path(n):
        if n is loop:
            return [n]
        for c in children(n):
            if c.get('kind') == 'LambdaExpr':
                continue
            p = path(c)
            if p:
                return [n] + p
        return None
    chain = path(fn.body)
    if not chain:
        raise AnalysisBroken(what + 'the loop around %s() is not part of the function body' % api)
    last = {}
    for parent, child in zip(chain, chain[1:]):
        if parent.get('kind') not in ('CompoundStmt', 'CXXTryStmt'):
            raise AnalysisBroken(what + 'the loop around %s() is nested in a %s: not modelled for the form that hands '
                                 'the stream its whole input before the loop' % (api, parent.get('kind')))
        for st in children(parent):
            if st is child:
                break
            top = _stream_store(strip(st), sid, STREAM_INPUT + ('next_out', 'avail_out'))
            if top is not None:
                last[top[0]] = (top[1], True)
                continue
            for x in walk(st):
                inner = _stream_store(x, sid, STREAM_INPUT + ('next_out', 'avail_out'))
                if inner is not None:
                    last[inner[0]] = (inner[1], False)
    if 'next_in' not in last or _is_null(last['next_in'][0]):
        return None
    for name in STREAM_INPUT:
        if name not in last or not last[name][1]:
            raise AnalysisBroken(what + 'no input is stored to the stream inside the loop and the last store to %s '
                                 'before the loop is %s: not modelled' % (name, 'missing' if name not in last else 'conditional'))
    return {name: (last[name][0] if name in last and last[name][1] else None)
            for name in STREAM_INPUT + ('next_out', 'avail_out')}


def benign_buf_error(prog, chk, rid, zu, obody, ocond, vars_, sid, outer):
    """zlib.h: "inflate() returns Z_BUF_ERROR if no progress was possible ... Note that Z_BUF_ERROR is
    not fatal, and inflate() can be called again with more input".  It happens on a valid stream when
    a round consumed its whole input slice while filling the output buffer exactly: the loop calls
    inflate once more (the buffer was full), which has nothing to do.  With further input slices
    to come the loop must go on to feed them - neither throw nor leave."""
    if vars_.get('whole'):
        chk.note('%s: %s: the scenario "Z_BUF_ERROR because an input slice was consumed exactly as the output buffer '
                 'filled, further slices follow" is skipped: the stream is handed its whole input before the loop '
                 '(no store to next_in / avail_in in the loop at %s), so there are no slices; Z_BUF_ERROR is evaluated '
                 'as a no-progress status of the single loop instead' % (rid, zu.name, locstr(outer)))
        return
    res = _zlib_round(prog, zu, obody, ocond, vars_, sid, Z_CODES['Z_BUF_ERROR'], False,
                      exhausted=False, in_left=0)
    inst = 'further input slices follow, inflate returns Z_BUF_ERROR (slice consumed as the output buffer filled)'
    if res == {'continues'}:
        chk.ok(rid, inst + ' -> continues with the next slice', locstr(outer), site=inst)
    else:
        chk.violation(rid, 'zlib_uncompress|Z_BUF_ERROR|benign no-progress call rejected', locstr(outer),
                      '%s: outcome %s instead of continuing with the next slice - a valid stream whose '
                      'compressed data happens to align with the slice size is rejected' % (inst, sorted(res)))


def _zlib_round(prog, zu, obody, ocond, vars_, sid, code, more_output, exhausted=True,
                in_left=None, want_inner=False, want_states=False, preset=None, configure=None):
    """One outer round; returns set of {'throw','exits','continues'} (want_states: and the list of
    (outcome, environment at the end of the round))."""
    from ..feval import Evaluator, UNKNOWN, Outcome
    rid = vars_['ret']['id']
    if vars_.get('whole'):
        # whole input handed over before the loop: "exhausted" is the stream's own counter at 0, before and
        # after the call; otherwise some input is left over after the call unless the scenario says how much
        env = {rid: UNKNOWN, ('member', sid, 'avail_in'): 0 if exhausted else 5}
        if in_left is None:
            in_left = 0 if exhausted else 5
    else:
        pid, eid = vars_['ptr']['id'], vars_['end']['id']
        env = {pid: 1000 if exhausted else 0, eid: 1000, rid: UNKNOWN}

    def hook(ev, qn, args, env_, node, stmt=False):
        return NotImplemented
    ev = Evaluator(prog, zu, hook)
    ev.inner_cond = []
    ev.in_left = in_left
    if preset:
        env.update(preset)
    if configure is not None:
        configure(ev)
    _patch(ev, sid, code, more_output)
    # constants declared before the loop (chunk size)
    for stx in children(zu.body):
        if stx.get('kind') == 'DeclStmt':
            for d in children(stx):
                if d.get('kind') == 'VarDecl' and d['id'] not in env:
                    init = [x for x in children(d) if not x['kind'].endswith('Attr')]
                    if init:
                        v = ev.ev(init[-1], env)
                        if isinstance(v, int):
                            env[d['id']] = v
    results = set()
    ends = []
    states = list(ev.exec(obody, dict(env), ()))
    for st, e in states:
        if st is not None:
            if st.kind == 'throw':
                r = 'throw'
            elif st.kind == 'break':
                r = 'exits'
            elif st.kind == 'return':
                r = 'exits'
            elif st.kind == 'continue':
                r = _cond(ev, ocond, e)
            else:
                continue
        else:
            r = _cond(ev, ocond, e)
        results.add(r)
        ends.append((r, e))
    if want_states:
        return results, ends
    if want_inner:
        return results, list(ev.inner_cond)
    return results


def _cond(ev, ocond, env):
    if ocond is None or not ocond.get('kind'):
        return 'continues'          # for (;;)
    v = ev.ev(ocond, env)
    from ..feval import undecided
    if undecided(v):
        return 'continues'
    return 'continues' if ev.truth(v) else 'exits'


def prefix_states(prog, f, sid, outer, sizes=None):
    """Finite evaluation of the statements of f before the loop `outer` (a statement of the function body),
    std::vector locals and parameters tracked (sizes[id] preset): -> (evaluator, [(status, env)])."""
    from ..feval import Evaluator
    stmts = children(f.body)
    idx = [i for i, st in enumerate(stmts) if st is outer]
    if not idx:
        raise AnalysisBroken('%s: the loop around inflate() is not a statement of the function body itself: what happens '
                             'before and after it is not modelled' % f.name)
    ev = Evaluator(prog, f, lambda *a, **k: NotImplemented)
    ev.inner_cond, ev.in_left, ev.deflate_calls = [], None, []
    ev.containers = vector_ids(f)
    ev.track_output, ev.inflate_entries, ev.appends = True, [], []
    _patch(ev, sid, 0, False)
    env = {('size', k): v for k, v in (sizes or {}).items()}
    pre = {'kind': 'CompoundStmt', 'inner': stmts[:idx[0]]}
    return ev, list(ev.exec(pre, env, ())), stmts[idx[0] + 1:]


def vector_ids(f):
    ids = {p['id'] for p in f.params if 'vector<' in (p.get('type') or '')}
    ids |= {x['id'] for x in walk(f.body) if x.get('kind') == 'VarDecl' and 'vector<' in (x.get('type') or '')}
    return ids


CONTAINER_READS = ('size', 'length', 'empty', 'data', 'begin', 'cbegin', 'end', 'cend', 'capacity', 'max_size',
                   'at', 'front', 'back', 'operator[]')


def container_data(env, cid):
    """The address of the storage of the tracked container cid: a new symbol after every operation that may
    move it (so that a pointer taken before and used after is not equal to any address inside the container)."""
    from ..feval import Lin
    return Lin.sym('data(%s)#%d' % (cid, env.get(('gen', cid), 0)))


def container_call(ev, x, env):
    """Member call on a tracked std::vector (ev.containers: declaration ids): size / data / end as values
    (('size', id) in the environment; addresses are symbolic), resize / insert / push_back / clear / reserve as
    effects on them; an append is recorded in ev.appends.  NotImplemented when x is no such call."""
    from ..feval import UNKNOWN, Lin
    callee = strip(children(x)[0]) if children(x) else {}
    if callee.get('kind') != 'MemberExpr' or not children(callee):
        return NotImplemented
    recv = strip(children(callee)[0], explicit=True)
    cid = (recv.get('referencedDecl') or {}).get('id') if recv.get('kind') == 'DeclRefExpr' else None
    if cid is None or cid not in ev.containers:
        return NotImplemented
    m = callee.get('name')
    args = [a for a in children(x)[1:] if a.get('kind') != 'CXXDefaultArgExpr']
    size = env.get(('size', cid), UNKNOWN)
    if m in ('size', 'length'):
        return size
    if m == 'empty':
        return ev.binop('==', size, 0)
    if m in ('data', 'begin', 'cbegin'):
        return container_data(env, cid)
    if m in ('end', 'cend'):
        return ev.binop('+', container_data(env, cid), size)
    if m in CONTAINER_READS:
        return UNKNOWN

    def moved():
        env[('gen', cid)] = env.get(('gen', cid), 0) + 1
    if m == 'resize' and args:
        v = ev.ev(args[0], env)
        if isinstance(v, bool) or not isinstance(v, (int, Lin)):
            ev.fresh = getattr(ev, 'fresh', 0) + 1
            v = Lin.sym('n%d' % ev.fresh)       # some size: only its identity matters
        env[('size', cid)] = v
        moved()
    elif m == 'reserve':
        moved()
    elif m == 'clear':
        env[('size', cid)] = 0
    elif m in ('push_back', 'emplace_back'):
        env[('size', cid)] = ev.binop('+', size, 1)
        moved()
    elif m == 'insert' and len(args) == 3:
        def plain(a):
            # an iterator converted to a const_iterator, a temporary bound to a reference: the same position
            a = strip(a, explicit=True)
            while a.get('kind') in ('CXXConstructExpr', 'MaterializeTemporaryExpr', 'CXXBindTemporaryExpr') and \
                    len(children(a)) == 1:
                a = strip(children(a)[0], explicit=True)
            return a
        pos, b, e = (ev.ev(plain(a), env) for a in args)
        n = ev.binop('-', e, b)
        at_end = ev.binop('==', pos, ev.binop('+', container_data(env, cid), size)) is True
        if hasattr(ev, 'appends'):
            ev.appends.append({'container': cid, 'at_end': at_end, 'source': b, 'count': n})
        env[('size', cid)] = ev.binop('+', size, n)
        moved()
    else:
        env[('size', cid)] = UNKNOWN        # assign, erase, swap, ...: not modelled
        moved()
    return UNKNOWN


def _patch(ev, sid, code, more_output):
    """Teach the finite evaluator the few constructs of the zlib loop: member
    assignments on the z_stream, ptr += n, the inner do-while, inflate()."""
    from ..feval import UNKNOWN, Outcome, Lin
    base_exec = ev.exec
    base_ev = ev.ev

    def ev2(n, env):
        x = strip(n, explicit=True)
        if x.get('kind') == 'CallExpr':
            nm = (strip(children(x)[0]).get('referencedDecl') or {}).get('name')
            if nm == 'inflate':
                if getattr(ev, 'track_output', False):
                    # what the call wrote: the room it was given less the room it left; next_out and total_out
                    # move on by that much (zlib.h)
                    was = env.get(('member', sid, 'avail_out'), UNKNOWN)
                    ev.inflate_entries.append((env.get(('member', sid, 'next_out'), UNKNOWN), was))
                    wrote = ev.binop('-', was, 0 if more_output else 1)
                    for m in ('next_out', 'total_out'):
                        env[('member', sid, m)] = ev.binop('+', env.get(('member', sid, m), UNKNOWN), wrote)
                env[('member', sid, 'avail_out')] = 0 if more_output else 1
                if ev.in_left is not None:
                    env[('member', sid, 'avail_in')] = ev.in_left
                return code
            if nm == 'deflate':
                args = children(x)[1:]
                fl = base_ev(args[1], env) if len(args) > 1 else UNKNOWN
                ev.deflate_calls.append((env.get(('member', sid, 'avail_in'), UNKNOWN), fl))
                env[('member', sid, 'avail_out')] = 1     # output buffer not filled
                env[('member', sid, 'avail_in')] = 0      # deflate consumes its input
                return 0
            if nm == 'inflateEnd':
                return 0
            if nm in ('min', 'max') and len(children(x)) == 3:
                # std::min(a, b) / std::max(a, b): the value of the ternary it abbreviates
                a, b = (ev.ev(y, env) for y in children(x)[1:])
                if isinstance(a, int) and isinstance(b, int):
                    return min(a, b) if nm == 'min' else max(a, b)
                return UNKNOWN
        if x.get('kind') == 'InitListExpr' and len(children(x)) == 1 and \
                (absint.type_range(x.get('type')) or absint.type_range(x.get('dtype'))):
            return ev.ev(children(x)[0], env)      # braced scalar `std::ptrdiff_t{n}`
        if x.get('kind') == 'CXXReinterpretCastExpr' and len(children(x)) == 1:
            return ev.ev(children(x)[0], env)      # the same address under another pointer type
        if getattr(ev, 'containers', None) is not None:
            if x.get('kind') == 'CXXMemberCallExpr':
                r = container_call(ev, x, env)
                if r is not NotImplemented:
                    return r
            if x.get('kind') == 'DeclRefExpr' and '[' in (x.get('type') or ''):
                i = (x.get('referencedDecl') or {}).get('id')
                if i not in env:
                    return Lin.sym('array(%s)' % i)     # the address of a local array
        if x.get('kind') == 'MemberExpr':
            c = children(x)
            b = strip(c[0]) if c else {}
            if b.get('kind') == 'DeclRefExpr':
                return env.get(('member', b['referencedDecl']['id'], x.get('name')), UNKNOWN)
        return base_ev(n, env)
    ev.ev = ev2

    def repo_helper(call):
        """The repository function (with a body of its own) a call expression names, or None."""
        if call.get('kind') != 'CallExpr' or getattr(ev, '_helper_depth', 0) >= 3:
            return None
        d, qn, virt, recv = ev.prog.resolve_callee(ev.tu, call)
        if not qn:
            return None
        gs = [g for g in ev.prog.by_name(qn) if g.body is not None and not g.is_pattern
              and ev.prog.in_repo(g.file)]
        if len(gs) != 1 or len(gs[0].params) != len(children(call)) - 1:
            return None
        return gs[0]

    def call_helper(call, g, env, trace):
        """Part of the loop moved into a function of its own (status handling, feeding the next
        slice): the body is executed in place with the arguments bound.  Objects passed by
        reference / address (the z_stream, the status variable) are the caller's objects: their
        members and values are copied in and written back.  -> (throw outcome | None, caller env,
        returned value)"""
        from ..feval import Evaluator
        args = children(call)[1:]
        env2 = {k_: v_ for k_, v_ in env.items() if isinstance(k_, tuple)}
        shared = []                 # (parameter id, caller variable id, written back?)
        sid2 = sid
        for prm, a in zip(g.params, args):
            env2[prm['id']] = ev.ev(a, env)
            t = strip(a, explicit=True)
            if t.get('kind') == 'UnaryOperator' and t.get('opcode') == '&':
                t = strip(children(t)[0], explicit=True)
            if t.get('kind') != 'DeclRefExpr':
                continue
            aid = (t.get('referencedDecl') or {}).get('id')
            pt = prm.get('type') or ''
            byref = '&' in pt or pt.rstrip().endswith('*')
            for k_, v_ in list(env.items()):
                if isinstance(k_, tuple) and len(k_) == 3 and k_[0] == 'member' and k_[1] == aid:
                    env2[('member', prm['id'], k_[2])] = v_
            if byref:
                shared.append((prm['id'], aid, '&' in pt and 'const' not in pt.split('&')[0]))
                if aid == sid:
                    sid2 = prm['id']
        sub = Evaluator(ev.prog, g, ev.call_hook, ev.max_paths)
        sub.inner_cond = ev.inner_cond
        sub.in_left = ev.in_left
        if hasattr(ev, 'deflate_calls'):
            sub.deflate_calls = ev.deflate_calls
        sub._helper_depth = getattr(ev, '_helper_depth', 0) + 1
        _patch(sub, sid2, code, more_output)
        for st, e in sub.exec(g.body, env2, trace + (('call', g.qualname),)):
            back = dict(env)
            for pid_, aid, scalar in shared:
                for k_, v_ in e.items():
                    if isinstance(k_, tuple) and len(k_) == 3 and k_[0] == 'member' and k_[1] == pid_:
                        back[('member', aid, k_[2])] = v_
                if scalar and pid_ in e and aid in env:
                    back[aid] = e[pid_]
            if st is not None and st.kind == 'throw':
                yield st, back, None
            elif st is not None and st.kind == 'return':
                yield None, back, st.value
            else:
                yield None, back, None
        ev.unsupported.extend(sub.unsupported)

    def helper_stmt(n, env, trace):
        """`f(...);`, `x = f(...);`, `T x = f(...);`, `return f(...)` is left to the base - with f a
        repository function: -> generator of (status, env) or None."""
        x = strip(n)
        target = None
        call = None
        if x.get('kind') == 'CallExpr':
            call = x
        elif x.get('kind') == 'BinaryOperator' and x.get('opcode') == '=':
            c = children(x)
            r = strip(c[1], explicit=True)
            l = strip(c[0])
            if r.get('kind') == 'CallExpr' and l.get('kind') in ('DeclRefExpr', 'MemberExpr'):
                call, target = r, l
        elif n.get('kind') == 'DeclStmt':
            ds = [d for d in children(n) if d.get('kind') == 'VarDecl']
            if len(ds) == 1 and len(children(n)) == 1:
                init = [y for y in children(ds[0]) if not y['kind'].endswith('Attr')]
                r = strip(init[-1], explicit=True) if init else {}
                if r.get('kind') == 'CallExpr':
                    call, target = r, ds[0]
        if call is None:
            return None
        g = repo_helper(call)
        if g is None:
            return None
        body = [y for y in children(g.body) if not y.get('kind', '').endswith('Comment')]
        if len(body) == 1 and body[0].get('kind') == 'ReturnStmt' and \
                not any(y.get('kind') == 'CallExpr' for y in walk(body[0])):
            return None         # a pure one-line function: evaluated as a value by the base

        def gen():
            for st, e, v in call_helper(call, g, env, trace):
                if st is not None:
                    yield st, e
                    continue
                if target is not None:
                    if v is None:
                        v = UNKNOWN
                    if target.get('kind') == 'VarDecl':
                        e[target['id']] = v
                    elif target.get('kind') == 'DeclRefExpr':
                        e[target['referencedDecl']['id']] = v
                    else:
                        b = strip(children(target)[0]) if children(target) else {}
                        if b.get('kind') == 'DeclRefExpr':
                            e[('member', b['referencedDecl']['id'], target.get('name'))] = v
                yield None, e
        return gen()

    def exec2(n, env, trace):
        k = n.get('kind')
        x = strip(n)
        hs = helper_stmt(n, env, trace)
        if hs is not None:
            for r in hs:
                yield r
            return
        if getattr(ev, 'containers', None) is not None and x.get('kind') == 'CXXMemberCallExpr' and \
                container_call(ev, x, env) is not NotImplemented:
            yield None, env
            return
        if x.get('kind') == 'BinaryOperator' and x.get('opcode') == '=':
            c = children(x)
            l = strip(c[0])
            v = ev.ev(c[1], env)
            if l.get('kind') == 'MemberExpr':
                b = strip(children(l)[0])
                if b.get('kind') == 'DeclRefExpr':
                    env[('member', b['referencedDecl']['id'], l.get('name'))] = v
                    yield None, env
                    return
            if l.get('kind') == 'DeclRefExpr':
                env[l['referencedDecl']['id']] = v
                yield None, env
                return
        if x.get('kind') == 'CompoundAssignOperator' and x.get('opcode') == '+=':
            c = children(x)
            l = strip(c[0])
            if l.get('kind') == 'DeclRefExpr':
                a = env.get(l['referencedDecl']['id'], UNKNOWN)
                b = ev.ev(c[1], env)
                env[l['referencedDecl']['id']] = ev.binop('+', a, b)
                yield None, env
                return
        if x.get('kind') == 'CallExpr' and \
                (strip(children(x)[0]).get('referencedDecl') or {}).get('name') == 'deflate':
            ev.ev(x, env)
            yield None, env
            return
        if k in ('DoStmt', 'WhileStmt', 'ForStmt'):
            # inner loop: one round, then its own condition is evaluated and recorded
            # (ev.inner_cond: would a second round follow?); the caller decides whether
            # a further round is legitimate (progress) or a spin (no progress).  A loop that
            # tests first is entered only when its condition can hold; one without a condition
            # (`for (;;)`, left by break) would always run again.
            from ..feval import undecided
            c = children(n)
            if k == 'DoStmt':
                lbody, lcond, first = c[0], c[1], False
            elif k == 'WhileStmt':
                lcond, lbody, first = c[0], c[-1], True
            else:
                inner = n.get('inner', [])
                inner = inner + [{}] * (5 - len(inner))
                if inner[0].get('kind') or inner[1].get('kind') or inner[3].get('kind'):
                    for r in base_exec(n, env, trace):
                        yield r
                    return
                lcond, lbody, first = (inner[2] if inner[2].get('kind') else None), inner[4], True

            def again(e):
                if lcond is None:
                    return True
                v = ev.ev(lcond, e)
                return True if undecided(v) else bool(ev.truth(v))
            if first and not again(env):
                yield None, env
                return
            for st, e in base_exec(lbody, env, trace):
                if st is not None and st.kind == 'break':
                    yield None, e
                elif st is not None and st.kind == 'continue':
                    ev.inner_cond.append(again(e))
                    yield None, e
                else:
                    if st is None:
                        ev.inner_cond.append(again(e))
                    yield st, e
            return
        for r in base_exec(n, env, trace):
            yield r
    ev.exec = exec2
