"""C01  Track data written through a snapshot reads back unchanged (structural clauses).

R1  statement shape for every statement on the track tables (both generations)
R2  column <-> source agreement across INSERT / UPDATE / SELECT and schema ranges
R3  every name resolves in the DDL of every schema version the statement can run under
R4  provenance: for each of the snapshot fields, the locations snapshot() reads the field
    from are locations create/update write from that same field
R5  blob column <-> codec class agreement
"""
import re

from .. import program, callgraph, effects, rowmap, rowrules, fieldmodel as fm, valueflow as vf
from ..frontend import AnalysisBroken
from ..program import children, strip, walk, locstr
from ..report import Check
from . import c18

V1 = 'djinterop::engine::v1::'
V2 = 'djinterop::engine::v2::'
TRACK_TABLES = ('track', 'metadata', 'metadatainteger', 'performancedata')

# fields a schema generation cannot represent: no location is written (rule R4a then requires
# that none is read either).  Read from the code, listed here only for the report.


def _short(q):
    return q.replace('djinterop::engine::', '')


def v1_storage_functions(prog):
    return [f for f in prog.functions.values()
            if f.cls == V1 + 'engine_storage' and f.body is not None and not f.is_pattern]


def generic_maps(maps, table, side):
    """[(SiteMap, {column: source key})]; side 'write': INSERT / UPDATE keyed by row field
    (row.x) or parameter name; side 'read': SELECT keyed by the record field the sink fills.
    The two sides use different name spaces and are linked by R4, not by R2."""
    out = []
    for sm in maps:
        if (side == 'write') != (sm.stmt.kind in ('insert', 'update')):
            continue
        if (sm.stmt.table or '').lower() != table.lower():
            continue
        m = {}
        if sm.stmt.kind in ('insert', 'update'):
            for col, src, role, p in sm.col_src:
                if role not in ('value', 'set') or src is None or col is None:
                    continue
                if src.root and src.root[0] == 'param':
                    key = src.field if src.path else src.root[1]
                    m.setdefault(col.lower(), set()).add(key)
        elif sm.stmt.kind == 'select':
            for text, col, tgt in sm.out:
                if col and tgt and tgt[0] == 'field':
                    m.setdefault(col.lower(), set()).add(tgt[2])
        if len(m) >= 2:
            out.append((sm, m))
    return out


def statement_agreement(prog, cg, eff, chk, R1, R2, R3, order, cats, v1lo, v1hi, v2lo, v2hi):
    """Statement-level rules on the track tables of both generations (shared with C06): shape (R1),
    column <-> field agreement incl. key/value tables, sibling filters and range copies (R2),
    name resolution against the DDL (R3).  A rule id given as None is skipped."""
    # ---- v1 statements -------------------------------------------------------------
    funcs = v1_storage_functions(prog)
    for f in funcs:
        chk.analysed(f)
    maps = [m for m in rowrules.expand_sites(prog, cg, eff, funcs)
            if (m.stmt.table or '').lower() in TRACK_TABLES]
    if R1 is not None:
        c18.shape(chk, R1, maps)
    _keyvalue_agreement(chk, R2, maps)
    _filter_agreement(chk, R2, maps)
    range_copy_agreement(chk, R2, maps)
    for table in ('Track', 'PerformanceData'):
        for side in ('write', 'read'):
            gm = generic_maps(maps, table, side)
            if gm:
                c18.agreement(chk, R2, gm, table, 'engine_storage')
    if R3 is not None:
        c18.resolve(chk, R3, maps, order, cats, v1lo, v1hi)
    # ---- v2 track table (statement rules shared with C18) ----------------------------
    tfuncs = c18.table_functions(prog, 'track_table')
    tmaps = rowrules.expand_sites(prog, cg, eff, tfuncs)
    if R1 is not None:
        c18.shape(chk, R1, tmaps)
    c18.agreement(chk, R2, c18.field_maps(tmaps, 'Track', V2 + 'track_row'), 'Track', 'track_table')
    range_copy_agreement(chk, R2, tmaps)
    if R3 is not None:
        c18.resolve(chk, R3, tmaps, order, cats, v2lo, v2hi)
    return funcs, maps, tmaps


def run(tier='quick'):
    prog = program.load()
    cg = callgraph.get(prog)
    eff = effects.Effects(prog, cg)
    rowmap.install_program(prog)
    chk = Check('C01', tier)
    chk.units = len(prog.tus)
    R1 = chk.rule('R1', 'every statement on Track / MetaData / MetaDataInteger / PerformanceData has as many '
                        'binds as placeholders, equal INSERT widths in every VALUES tuple, and a SELECT list '
                        'as wide as its sink', floor=40)
    R2 = chk.rule('R2', 'all statements on one table tie each column to the same C++ source (row field or '
                        'parameter of the same name) - INSERT vs UPDATE vs SELECT and across schema ranges', floor=20)
    R3 = chk.rule('R3', 'every table and column a statement names exists in the DDL of every schema version '
                        'its schema guards admit', floor=60)
    R4 = chk.rule('R4', 'per snapshot field X and generation: (a) nothing written from X => nothing read for X; '
                        '(b) something written => something read; (c) every location snapshot() reads X from '
                        'is written from X by update(); (d) create_track and update write X to the same '
                        'locations', floor=140)
    R5 = chk.rule('R5', 'every blob column is encoded on the write side and decoded on the read side by one '
                        'and the same codec class', floor=10)
    chk.assume('SQLite returns a stored value of the column\'s affinity unchanged')
    chk.note('not decided (value level): conversion exactness (string / double / time point), clamping and '
             'truncation arithmetic, idempotence of normalisation, padding of cue / loop lists')

    order = rowrules.enum_order(prog)
    cats = rowrules.version_catalogs(prog)
    from . import c13
    supported = c13._supported(prog)
    v2lo = order.index('schema_2_18_0')
    v1lo, v1hi = 0, v2lo - 1
    v2hi = max(order.index(e) for e in supported)

    funcs, maps, tmaps = statement_agreement(prog, cg, eff, chk, R1, R2, R3, order, cats, v1lo, v1hi, v2lo, v2hi)

    # ---- R5 ----------------------------------------------------------------------------
    _codec_agreement(prog, chk, R5, maps + tmaps)

    R14 = chk.rule('R14', 'a group of writes that create_track / update() make only under a condition over snapshot fields '
                          'stores no field the condition does not mention, unless the condition is proved always true '
                          '(a disjunct tests a list non-empty that its conversion helper pads to a positive minimum on '
                          'every return) or the field has another, unconditional location: otherwise a sparse snapshot '
                          'that carries only such a field is accepted and the field is silently dropped', floor=2)
    R18 = chk.rule('R18', 'what update() / create_track store for a snapshot field is computed from the snapshot on every '
                          'path: no alternative of the written value is the stored value of the same location carried over '
                          '(objects handed to helpers by non-const reference are followed)', floor=20)
    # ---- R4 ----------------------------------------------------------------------------
    reps = representative_versions(prog, order, v1lo, v1hi, v2lo, v2hi)
    nfields = 0
    global _CTX
    _CTX = (prog, cg, eff, order)
    _LOSSY.clear()
    _LOSSY.update(lossy_members(prog))
    import multiprocessing
    import os as _os
    nfields = 0
    with multiprocessing.get_context("fork").Pool(min(len(reps), _os.cpu_count() or 4)) as pool:
        results = pool.map(_range_worker, reps)
    for calls, nf in results:
        nfields = nf
        for c in calls:
            getattr(chk, c[0])(*c[1], **c[2])
    if not any(c[0] in ('ok', 'violation') and c[1] and c[1][0] == 'R14' for calls, _ in results for c in calls):
        chk.fail_broken('R14: no conditional write group found in create_track / update()')
    chk.extra['representative_versions'] = ['%s %s' % (g, order[v]) for g, v in reps]
    rowrules.fetch_widths(prog, chk, R2, maps + tmaps)
    R10 = chk.rule('R10', 'every write path of the 1.x performance blobs applies the decode-after-encode guard: a snapshot '
                          'whose blob the decoder would reject (one beat-grid marker, unsorted markers) is refused instead '
                          'of stored', floor=2)
    from . import c03 as _c03
    _c03._sibling_guard(prog, chk, R10)
    R9 = chk.rule('R9', 'update() and create_track rely on the transaction guard to undo a write that is rejected '
                        'part-way (so that a snapshot never shows a mixture): the guard begins, commits and rolls '
                        'back exactly when not committed', floor=4)
    from . import c14
    c14._guard_shape(prog, eff, chk, R9)
    R8 = chk.rule('R8', 'a reader that fills an optional field from a primary source and a fallback never replaces a '
                        'value already found by one that may be absent', floor=1)
    no_clobber(prog, chk, R8)
    R7 = chk.rule('R7', 'no member update is made on a local copy that is then dropped (conversion layer between '
                        'snapshot fields and rows / blobs)', floor=20)
    rowrules.lost_updates(prog, chk, R7)
    R6 = chk.rule('R6', 'the util helpers that lift a conversion over std::optional between nullable columns and snapshot fields yield a value exactly when given one (no stored value is read back as "not set")', floor=4)
    from .. import rowrules as _rr
    _rr.optional_lifts(prog, chk, R6)
    R11 = chk.rule('R11', 'update() on a handle whose row no longer exists is rejected: every UPDATE of the Track row that '
                          'update() reaches is followed, with no other statement between, by a test of rows_modified() whose '
                          'zero case throws (or an existence test that throws precedes it)', floor=7)
    missing_row_rejected(prog, cg, eff, chk, R11)
    R12 = chk.rule('R12', 'every SQL statement executes where it is written (its binder is a temporary of the full '
                          'expression), which the order-sensitive rules above (R11, the transaction scope) take for granted',
                   floor=100)
    c14.immediate_statements(prog, eff, chk, R12)
    R13 = chk.rule('R13', 'what update() / create_track() store is stored whatever rows exist: every UPDATE of a 1.x secondary '
                          'table (MetaData, MetaDataInteger, PerformanceData) is preceded in its function by an INSERT into '
                          'that table or followed by a test of rows_modified() - a plain UPDATE of a missing '
                          'PerformanceData row (track imported but never analysed) loses the performance data silently',
                   floor=4)
    from . import extra
    extra.updates_have_rows(prog, cg, eff, chk, R13)
    R15 = chk.rule('R15', 'the fixed-width primitives every blob field passes through are exact for every value (rule L1 of '
                          'C02: byte placement, two 32-bit halves by shifts 0 and 32, no sign extension or rounding of a half)',
                   floor=14)
    extra.primitives_exact(prog, chk, R15)
    R16 = chk.rule('R16', 'the shared compressor writes one complete deflate stream for every payload size (rule S6 of C03): '
                          'a snapshot whose blob is an exact multiple of the chunk size is not stored as a truncated stream',
                   floor=2)
    extra.deflate_complete(prog, chk, R16)
    R17 = chk.rule('R17', 'no conversion between a snapshot field and its stored form depends on the process environment (time '
                          'zone, locale, environment variables): timestamps read back as given under every TZ', floor=1)
    extra.environment_independent(prog, chk, R17)
    return chk.finish('statement-level analysis of the 1.x storage layer and the 2.x track table; value-flow '
                      'interpretation (sa/valueflow.py) of snapshot(), update() and create_track() of both '
                      'generations with every repository callee inlined down to the SQL statements, once per '
                      'schema range (%d representative versions); %d snapshot fields' % (len(reps), nfields))


def _range_worker(args):
    """Evaluate one schema range in a forked worker; returns the recorded rule outcomes."""
    gen, vi = args
    prog, cg, eff, order = _CTX
    from .c06 import _Recorder
    chk = _Recorder()
    R4 = "R4"
    nfields = 0
    M = fm.FieldModel(prog, cg, eff, assume_schema=vi, enum_order=order)
    nfields = len(M.fields)
    ver = order[vi]
    rs, asnap = M.r_snap(gen)
    wu, aupd, _ = M.w_of(gen, 'update')
    wc, acre, _ = M.w_of(gen, 'create')
    for a in (asnap, aupd, acre):
        chk.analysed(a.func)
        if a.unknown:
            chk.unknown(R4, a.func.qualname, 'constructs outside the modelled subset: %s' % a.unknown[:3])
    where_s = locstr(asnap.func.node)
    where_u = locstr(aupd.func.node)
    S = lambda s: sorted(fm.show_loc(k) for k in s)
    for x in M.fields:
        R = _drop_whole(rs[x])
        W = wu[x]
        Wc = wc[x]
        inst = '%s (%s..) %s' % (gen, ver, x)
        # (a)/(b)
        if not W and R:
            chk.violation(R4, '%s|%s|read-not-written' % (gen, x), where_s,
                          '%s: snapshot() reads %s from %s but update() writes nothing from it: the field '
                          'cannot read back as given' % (inst, x, S(R)))
        elif W and not R:
            chk.violation(R4, '%s|%s|written-never-read' % (gen, x), where_s,
                          '%s: update() stores %s in %s but snapshot() never reads it back: the field is '
                          'silently dropped by the round trip' % (inst, x, S(W)))
        else:
            chk.ok(R4, inst + ' representable: %s' % ('yes' if W else 'no (neither written nor read)'),
                   where_s)
        # (c)
        if R and W:
            missing = {k for k in R if not _covered(k, W)}
            if missing:
                chk.violation(R4, '%s|%s|reads %s' % (gen, x, ','.join(S(missing))), where_s,
                              '%s: snapshot() computes %s from %s, which update() does not write from %s '
                              '(it writes %s): the value read back can differ from the value given' % (
                                  inst, x, S(missing), x, S(W)))
            else:
                chk.ok(R4, inst + ' read locations are written locations', where_s,
                       detail={'read': S(R), 'written': S(W)})
        # (d)
        if fm.coarse(W) != fm.coarse(Wc):
            chk.violation(R4, '%s|%s|create/update differ' % (gen, x), where_u,
                          '%s: create_track writes %s to %s but update() writes it to %s' % (
                              inst, x, S(Wc), S(W)))
        else:
            chk.ok(R4, inst + ' create == update', where_u)
        # (e) no other field reads what X alone writes
        for y in M.fields:
            if y == x:
                continue
            clash = {k for k in W if any(_same_or_inside(k, r) for r in _drop_whole(rs[y]))
                     and not any(_same_or_inside(k, w2) or _same_or_inside(w2, k) for w2 in wu[y])}
            if clash:
                chk.violation(R4, '%s|%s|value also read as %s' % (gen, x, y), where_u,
                              '%s: update() writes %s from %s, and snapshot() reads that location for %s, '
                              'which does not write it: %s written through a snapshot changes what is read '
                              'back for %s' % (inst, S(clash), x, y, x, y))
        # (f) a location whose encoding cannot represent every value of X (its "absent" constant is
        # also a legal value: C03-S4) must be complemented on the read side: the snapshot reads every
        # other location update() writes for X, or the colliding value reads back as absent
        lossy = [k for k in W if (gen, k[3]) in _LOSSY and k[3]]
        if lossy:
            ignored = {k for k in W if not any(_same_or_inside(k, r) or _same_or_inside(r, k) for r in R)}
            if ignored:
                chk.violation(R4, '%s|%s|lossy location not complemented: %s ignored' % (gen, x, ','.join(S(ignored))), where_s,
                              '%s: update() stores %s in %s; the encoding of %s cannot represent every value '
                              '(%s), and snapshot() does not read %s, the location that could recover it: the '
                              'colliding value reads back as absent' % (
                                  inst, x, S(W), S(lossy), _LOSSY[(gen, lossy[0][3])], S(ignored)))
            else:
                chk.ok(R4, inst + ' lossy location %s complemented by every other written location' % S(lossy), where_s)
    if gen == 'v2':
        _role_pairing(prog, chk, R4, M, asnap, aupd, ver)
    for which, a, W in (('update', aupd, wu), ('create_track', acre, wc)):
        _conditional_write_coverage(prog, chk, 'R14', gen, ver, which, a, W, M.fields)
        _stored_value_kept(chk, 'R18', gen, ver, which, a)
    return chk.calls, nfields


def _stored_value_kept(chk, rid, gen, ver, which, a):
    """What update() / create_track store for a snapshot field is computed from the snapshot on every path: no
    alternative of the value written to a location is that location's own stored value carried over (a helper that
    keeps the old beat grid when a lock flag is set makes the call return normally with the given grid dropped)."""
    f = a.func
    pname = [p.get('name') for p in f.params if 'track_snapshot' in (p.get('type') or '')]
    if not pname:
        return
    pname = pname[0]
    n = 0
    for w in a.writes:
        ms = fm.blob_members(w.value)
        for m in (ms or ['']):
            mv = vf.member(w.value, m) if m else w.value
            if not fm.ins_of(mv, pname):
                continue
            n += 1
            key = (w.table.lower(), w.column.lower(), m)
            kept = None
            for alt in _alternatives(mv):
                ls = list(vf.leaves(alt))
                if any(x[0] == 'in' for x in ls):
                    continue
                locs = {(x[1].lower(), x[2].lower(), (x[4] or '').split('.')[0] if m else '') for x in ls if x[0] == 'loc'}
                if locs and locs == {key if m else (key[0], key[1], '')}:
                    kept = alt
            inst = '%s (%s..) %s: %s.%s%s is computed from the snapshot on every path' % (
                gen, ver, which, w.table, w.column, ('.' + m) if m else '')
            if kept is None:
                chk.ok(rid, inst, locstr(f.node))
            else:
                chk.violation(rid, '%s|%s|%s.%s%s keeps its stored value on some path' % (gen, which, w.table, w.column,
                                                                                          ('.' + m) if m else ''),
                              locstr(f.node),
                              '%s: not so - one alternative of the written value is the stored value of the location itself, '
                              'carried over unchanged: on that path the call returns normally and the value given in the '
                              'snapshot is dropped' % inst)
    return n


def _alternatives(t, depth=0):
    if not isinstance(t, tuple) or not t or depth > 12:
        return [t]
    if t[0] == 'phi':
        out = []
        for a in t[1]:
            out += _alternatives(a, depth + 1)
        return out
    if t[0] == 'ite':
        return _alternatives(t[2], depth + 1) + _alternatives(t[3], depth + 1)
    if t[0] in ('call', 'callm') and len(t) > 3 and isinstance(t[3], tuple) and t[3] and t[3][0] in ('phi', 'ite'):
        return _alternatives(t[3], depth + 1)
    return [t]


def _disjuncts(t):
    # a predicate helper is its (inlined) result
    hops = 0
    while t and t[0] in ('call', 'callm') and len(t) > 3 and t[3] is not None and hops < 6 and \
            (not (t[0] == 'callm' and isinstance(t[-1], str) and len(t) > 4) or
             (isinstance(t[3], tuple) and t[3] and t[3][0] == 'op')):
        # (a member of a helper's result that is itself a boolean expression - a flag computed there)
        t = t[3]
        hops += 1
    if t and t[0] == 'op' and t[1] == '||':
        out = []
        for a in t[2]:
            out.extend(_disjuncts(a))
        return out
    return [t]


def _padded_member(prog, qualname, member, _param=None, _func=None, _depth=0):
    """Does every return of the helper `qualname` hand back a local whose container member `member`
    holds at least k > 0 elements?  Accepted shapes, as top-level statements of the body with
    nothing but returns of that local after them:  if (x.m.size() < k) x.m.resize(k);   x.m.resize(k);
    while (x.m.size() < k) x.m.push_back / emplace_back(..).  Returns k or None."""
    from .. import guards
    from . import c15
    if _func is not None:
        f = _func
    else:
        fs = [f for f in prog.by_name(qualname) if f.body is not None and not f.is_pattern]
        if len(fs) != 1:
            return None
        f = fs[0]

    def literal_value(n):
        v = c15.const_value(n, f)
        return int(v) if isinstance(v, (int, float)) and not isinstance(v, bool) and v == int(v) else None
    stmts = children(f.body)
    rets = [x for x in walk(f.body) if x.get('kind') == 'ReturnStmt']
    if _param is not None:
        # the object is the reference parameter itself; the helper must not leave before it has padded it
        base = '#%s:%s' % (_param.get('id'), _param.get('name'))
        path = base
        rets = None
    elif not rets:
        return None
    rv = set()
    for r in (rets or []):
        c = children(r)
        e = strip(c[0], explicit=True) if c else None
        while e is not None and e.get('kind') in ('CXXConstructExpr', 'MaterializeTemporaryExpr', 'CXXBindTemporaryExpr',
                                                   'ExprWithCleanups') and len(children(e)) == 1:
            e = strip(children(e)[0], explicit=True)
        rv.add(guards.canon(e) if e is not None and e.get('kind') == 'DeclRefExpr' else None)
    if _param is None:
        if len(rv) != 1 or None in rv:
            return None
        base = rv.pop()
        path = base + '.' + member

    def mcall(n, names):
        n = strip(n, explicit=True)
        if n.get('kind') == 'ExprWithCleanups' and len(children(n)) == 1:
            n = strip(children(n)[0], explicit=True)
        if n.get('kind') != 'CXXMemberCallExpr':
            return None
        callee = strip(children(n)[0])
        if callee.get('name') in names and children(callee) and guards.canon(children(callee)[0]) == path:
            return children(n)[1:]
        return None

    def size_lt(cond):
        cond = strip(cond, explicit=True)
        if cond.get('kind') == 'BinaryOperator' and cond.get('opcode') in ('<', '<='):
            a, b = children(cond)
            if guards.canon(a) == path + '.size()':
                k = literal_value(b)
                if isinstance(k, int) and not isinstance(k, bool):
                    return k if cond['opcode'] == '<' else k + 1
        return None

    def single(n):
        while n.get('kind') == 'CompoundStmt' and len(children(n)) == 1:
            n = children(n)[0]
        return n

    for i, st in enumerate(stmts):
        k = None
        if st.get('kind') == 'IfStmt' and len(children(st)) == 2:
            need = size_lt(children(st)[0])
            args = mcall(single(children(st)[1]), ('resize',))
            if need and args:
                got = literal_value(args[0])
                if isinstance(got, int) and got >= need > 0:
                    k = need
        elif st.get('kind') == 'WhileStmt' and len(children(st)) == 2:
            need = size_lt(children(st)[0])
            if need and need > 0 and mcall(single(children(st)[1]), ('push_back', 'emplace_back')) is not None:
                k = need
        else:
            args = mcall(st, ('resize',))
            if args:
                got = literal_value(args[0])
                if isinstance(got, int) and got > 0:
                    k = got
            elif _depth < 3:
                # a padding helper handed the list by reference: what it establishes for its parameter holds for the list
                ce = strip(st, explicit=True)
                if ce.get('kind') == 'ExprWithCleanups' and len(children(ce)) == 1:
                    ce = strip(children(ce)[0], explicit=True)
                if ce.get('kind') == 'CallExpr' and len(children(ce)) >= 2:
                    hit = [j for j, a in enumerate(children(ce)[1:]) if guards.canon(a) == path]
                    ref = strip(children(ce)[0]).get('referencedDecl') or {}
                    if len(hit) == 1 and ref.get('name'):
                        cands = [g for g in prog.functions.values() if g.name == ref.get('name') and g.body is not None
                                 and prog.in_repo(g.file) and len(g.params) == len(children(ce)) - 1]
                        if any(not g.is_pattern for g in cands):
                            cands = [g for g in cands if not g.is_pattern]      # the instantiations, not the template
                        ks = set()
                        for g in cands:
                            prm = g.params[hit[0]]
                            if '&' in (prm.get('type') or '') and 'const' not in (prm.get('type') or '').split('&')[0]:
                                ks.add(_padded_member(prog, g.qualname, None, _param=prm, _func=g, _depth=_depth + 1))
                        if len(ks) == 1 and None not in ks:
                            k = ks.pop()
        if k is None:
            continue
        rest = stmts[i + 1:]
        if all(r.get('kind') == 'ReturnStmt' or not any(
                (x.get('referencedDecl') or {}).get('id') == base[1:].split(':')[0] for x in walk(r)) for r in rest):
            return k
    return None


def _always_true(prog, cond):
    """(proved, reason): one disjunct of the condition is !empty(m) for a list m that a conversion
    helper pads to a positive minimum on every return."""
    for d in _disjuncts(cond):
        if not (d and d[0] == 'op' and d[1] == '!' and d[2] and d[2][0] and d[2][0][0] == 'op' and d[2][0][1] == 'empty'):
            continue
        x = d[2][0][2][0] if d[2][0][2] else None
        # the list may have travelled through further helpers that hand it on as a member of their result
        hops = 0
        while x and x[0] == 'callm' and isinstance(x[1], str) and isinstance(x[-1], str) and hops < 6:
            k = _padded_member(prog, x[1], x[-1].split('.')[-1])
            if k:
                return True, '%s pads %s to %d entries on every return, so the test that it is non-empty always holds' % (
                    _short(x[1]).split('::')[-1], x[-1].split('.')[-1], k)
            x = x[3] if len(x) > 4 else None
            hops += 1
    return False, ''


def _conditional_write_coverage(prog, chk, rid, gen, ver, which, a, W, fields):
    f = a.func
    pname = [p.get('name') for p in f.params if 'track_snapshot' in (p.get('type') or '')]
    if not pname:
        return
    pname = pname[0]
    groups = {}
    for w in a.writes:
        for c in w.conds:
            cins = fm.ins_of(c, pname)
            if cins:
                groups.setdefault(id(c), (c, cins, []))[2].append(w)
    for c, cins, ws in groups.values():
        gated = {}
        for w in ws:
            for x in fm.ins_of(w.value, pname):
                if x in fields:
                    gated.setdefault(x, set()).add((w.table, w.column, w.disc))
        tables = sorted({w.table for w in ws})
        inst = '%s (%s..) %s: writes of %s under a condition over %s' % (gen, ver, which, ','.join(tables), sorted(cins))
        where = locstr(f.node)
        # a field is at risk when the condition does not mention it and every location it is written to is gated
        risk = sorted(x for x, locs in gated.items() if x not in cins and
                      not any((k[0], k[1], k[2]) not in locs for k in W.get(x, ())))
        if not risk:
            chk.ok(rid, inst + ' - every field stored only there is mentioned', where)
            continue
        proved, why = _always_true(prog, c)
        if proved:
            chk.ok(rid, inst + ' - condition always true: ' + why, where, detail={'fields_not_mentioned': risk})
        else:
            chk.violation(rid, '%s|%s|%s stored only under a condition that ignores it' % (gen, which, ','.join(risk)), where,
                          '%s: the fields %s are stored nowhere else and the condition does not mention them (nor is it '
                          'proved always true): a snapshot that carries only such a field is accepted and reads back '
                          'without it' % (inst, risk))


_LOSSY = {}


def _throws(n):
    return any(x.get('kind') == 'CXXThrowExpr' for x in walk(n))


def _exclusive(order, a, b):
    """a and b lie in different branches of one if statement."""
    for n in order:
        if n.get('kind') != 'IfStmt':
            continue
        br = [c for c in children(n)[1:]]
        if len(br) < 2:
            continue
        ia = [i for i, c in enumerate(br) if any(x is a for x in walk(c))]
        ib = [i for i, c in enumerate(br) if any(x is b for x in walk(c))]
        if ia and ib and ia[0] != ib[0]:
            return True
    return False


_SA_LOCALS = {}


def _single_assignment_locals(f):
    """Locals of f that are initialised at their declaration and never assigned again: id -> VarDecl."""
    key = id(f.node)
    if key not in _SA_LOCALS:
        decls, assigned = {}, set()
        for x in walk(f.node):
            k = x.get('kind')
            if k == 'VarDecl' and x.get('id') and [y for y in children(x) if not y['kind'].endswith('Attr')]:
                decls[x['id']] = x
            elif (k in ('BinaryOperator', 'CompoundAssignOperator') and (x.get('opcode') or '').endswith('=')
                  and x.get('opcode') not in ('==', '!=', '<=', '>=')) or \
                    (k == 'UnaryOperator' and x.get('opcode') in ('++', '--')):
                l = strip(children(x)[0], explicit=True)
                if l.get('kind') == 'DeclRefExpr':
                    assigned.add((l.get('referencedDecl') or {}).get('id'))
            elif k == 'CXXOperatorCallExpr' and len(children(x)) > 1:
                nm = (strip(children(x)[0]).get('referencedDecl') or {}).get('name') or ''
                if nm.endswith('=') and nm not in ('operator==', 'operator!=', 'operator<=', 'operator>='):
                    l = strip(children(x)[1], explicit=True)
                    if l.get('kind') == 'DeclRefExpr':
                        assigned.add((l.get('referencedDecl') or {}).get('id'))
        _SA_LOCALS[key] = {i: d for i, d in decls.items() if i not in assigned}
    return _SA_LOCALS[key]


def _cond_nodes(f, cond, pos=None, lo=None, hi=None, depth=0):
    """Nodes of a condition with every single-assignment local it names replaced by (joined with) the
    nodes of that local's initialiser: `const bool found = db.rows_modified() != 0; if (!found)` tests
    rows_modified() where the flag is initialised.  With pos/lo/hi the initialiser must be evaluated
    strictly between those positions (the value is read at the declaration, not at the test)."""
    out = list(walk(cond))
    if depth >= 3:
        return out
    sa = _single_assignment_locals(f)
    for x in list(out):
        if x.get('kind') != 'DeclRefExpr':
            continue
        d = sa.get((x.get('referencedDecl') or {}).get('id'))
        if d is None:
            continue
        if pos is not None:
            at = pos.get(id(d))
            if at is None or (lo is not None and at <= lo) or (hi is not None and at >= hi):
                continue
        init = [y for y in children(d) if not y['kind'].endswith('Attr')][-1]
        out += _cond_nodes(f, init, pos, lo, hi, depth + 1)
    return out


def _helper_tests_rows(t):
    for n in walk(t.body):
        if n.get('kind') != 'IfStmt':
            continue
        c = children(n)
        names = [strip(children(x)[0]).get('name') for x in _cond_nodes(t, c[0]) if x.get('kind') == 'CXXMemberCallExpr']
        if 'rows_modified' in names and (_throws(c[1]) or (len(c) > 2 and _throws(c[2])) or
                                         any(_throws(a) for a in children(t.body)[-1:])):
            return True
    return False


def _rows_test_after(f, eff, site, cg=None):
    """An if statement of f, sequenced after the statement site and before any other statement site, that tests
    rows_modified() and throws in the zero case (directly, or by returning early in the other case with a throw
    following)."""
    order = list(walk(f.body))
    pos = {id(n): i for i, n in enumerate(order)}
    at = pos.get(id(site.node))
    if at is None:
        return None
    inside = set(id(x) for x in walk(site.node))
    later_sites = sorted(pos[id(s.node)] for s in eff.sites(f) if id(s.node) in pos and pos[id(s.node)] > at
                         and id(s.node) not in inside and not _exclusive(order, site.node, s.node))
    limit = later_sites[0] if later_sites else len(order)
    for i in range(at + 1, limit):
        n = order[i]
        if n.get('kind') in ('CallExpr', 'CXXMemberCallExpr') and id(n) not in inside and cg is not None:
            # the test factored into a helper: a callee whose own body tests rows_modified() and throws
            e = cg.edge_for(f, n)
            for t in (e.targets if e else ()):
                if t.body is not None and _helper_tests_rows(t):
                    return n
        if n.get('kind') != 'IfStmt' or id(n) in inside:
            continue
        if any(id(site.node) == id(x) for x in walk(n)):
            continue
        c = children(n)
        names = [strip(children(x)[0]).get('name') for x in _cond_nodes(f, c[0], pos, at, limit)
                 if x.get('kind') == 'CXXMemberCallExpr']
        if 'rows_modified' not in names:
            continue
        if _throws(c[1]):
            return n
        if any(x.get('kind') == 'ReturnStmt' for x in walk(c[1])):
            for par in order:
                ch = children(par)
                if n in ch and any(_throws(a) for a in ch[ch.index(n) + 1:]):
                    return n
    return None


def missing_row_rejected(prog, cg, eff, chk, rid):
    for gen in ('v1', 'v2'):
        root = prog.func(fm.GEN[gen]['cls'] + '::update')
        reach = cg.reachable([root], stop=lambda f: not prog.in_repo(f.file))
        n = 0
        for key, (f, parent, callnode) in sorted(reach.items(), key=lambda kv: (kv[1][0].file, kv[1][0].line)):
            if f.body is None or f.is_pattern:
                continue
            for s in eff.sites(f):
                st = s.stored_in
                if st is None or st.kind != 'update' or (st.table or '').lower() != 'track':
                    continue
                n += 1
                chk.analysed(f)
                inst = '%s: %s reached from update()' % (gen, _short(f.qualname))
                t = _rows_test_after(f, eff, s, cg)
                if t is not None:
                    chk.ok(rid, inst + ': rows_modified() tested at %s' % locstr(t), locstr(s.node))
                    continue
                # existence test before the statement: a dominating earlier call in update() itself to a function
                # that throws when the row is absent
                pre = _existence_test_before(prog, cg, root, f, reach, key)
                if pre:
                    chk.ok(rid, inst + ': ' + pre, locstr(s.node))
                    continue
                chk.violation(rid, '%s|%s|update of a missing row accepted' % (gen, _short(f.qualname)), locstr(s.node),
                              '%s: UPDATE Track ... WHERE id = ? at %s is not followed by a rows_modified() test that '
                              'throws, and nothing before it establishes that the row exists: update() on a removed '
                              'track returns normally although nothing was written (the single-column setters of the '
                              'same table reject it)' % (inst, locstr(s.node)))
        if n == 0:
            raise AnalysisBroken('R11: %s update() reaches no UPDATE Track statement' % gen)


def _existence_test_before(prog, cg, root, f, reach, key):
    """root calls, before the call that leads to f, a repository function that throws track_deleted / a row-id
    error under a condition (an existence probe)."""
    # the call node in root on the path to f
    k = key
    first = None
    while k is not None:
        g, parent, node = reach[k]
        if parent == root.key:
            first = node
        k = parent
    if f.key == root.key:
        return None
    if first is None:
        return None
    order = list(walk(root.body))
    pos = {id(n): i for i, n in enumerate(order)}
    at = pos.get(id(first))
    if at is None:
        return None
    for e in cg.edges(root):
        if id(e.node) not in pos or pos[id(e.node)] >= at:
            continue
        for t in e.targets:
            if t.body is None or not prog.in_repo(t.file):
                continue
            for n in walk(t.body):
                if n.get('kind') == 'IfStmt' and _throws(children(n)[1]):
                    thrown = [x.get('type') or '' for y in walk(children(n)[1]) if y.get('kind') == 'CXXThrowExpr'
                              for x in children(y)]
                    if any('track_deleted' in ty or 'row_id_error' in ty for ty in thrown):
                        return 'existence probe %s precedes it' % _short(t.qualname)
    return None


def no_clobber(prog, chk, rid, min_instances=1):
    """An optional result field that a reader assigns at more than one place (a primary source and
    a fallback - 1.x key: performance blob, then the metadata row) must never have a value that
    was already found replaced by one that may be absent.  Every assignment after the first (in
    source order) is therefore either guarded by a test that the field is still empty, guarded by
    a test that the new value is present, or assigns a value that is present by construction."""
    from .. import guards
    n = 0
    for f in prog.functions.values():
        if f.body is None or f.is_pattern or not prog.in_repo(f.file) or f.name != 'snapshot':
            continue
        parent = {}
        for x in walk(f.body):
            for c in children(x):
                parent[id(c)] = x
        assigns = {}
        for x in walk(f.body):
            lhs = rhs = None
            if x.get('kind') == 'BinaryOperator' and x.get('opcode') == '=':
                lhs, rhs = children(x)
            elif x.get('kind') == 'CXXOperatorCallExpr':
                c = children(x)
                if (strip(c[0]).get('referencedDecl') or {}).get('name') == 'operator=' and len(c) == 3:
                    lhs, rhs = c[1], c[2]
            if lhs is None:
                continue
            l = strip(lhs)
            if l.get('kind') != 'MemberExpr' or 'optional' not in (l.get('type') or ''):
                continue
            pth = guards.canon(lhs)
            if pth:
                assigns.setdefault(pth, []).append((x, lhs, rhs))
        for pth, lst in sorted(assigns.items()):
            if len(lst) < 2:
                continue
            lst.sort(key=lambda t: ((t[0].get('loc') or [0, 0, 0])[1:3] if t[0].get('loc') else (0, 0)))
            for (x, lhs, rhs) in lst[1:]:
                n += 1
                ok = guards._rhs_engaged(rhs)
                why = 'assigns a value present by construction' if ok else ''
                rp = guards.canon(rhs)
                y = x
                while not ok and id(y) in parent:
                    y = parent[id(y)]
                    if y.get('kind') == 'IfStmt':
                        cond = children(y)[0]
                        in_then = any(id(z) == id(x) for z in walk(children(y)[1])) if len(children(y)) > 1 else False
                        facts_t = guards.truthy(cond) if in_then else guards.falsy(cond)
                        facts_f = guards.falsy(cond) if in_then else guards.truthy(cond)
                        if ('E:' + pth) in facts_f and ('E:' + pth) not in facts_t:
                            ok, why = True, 'guarded by a test that the field is still empty'
                        elif rp and ('E:' + rp) in facts_t:
                            ok, why = True, 'guarded by a test that the new value is present'
                short = '::'.join((f.qualname or '').split('::')[-2:])
                fld = pth.split(':')[-1]
                inst = '%s: later assignment of %s at %s' % (short, fld, locstr(x))
                if ok:
                    chk.ok(rid, inst + ' ' + why, locstr(x))
                else:
                    chk.violation(rid, '%s|%s overwritten by a possibly absent value' % (short, fld), locstr(x),
                                  '%s replaces whatever an earlier source found with a value that may be absent '
                                  '(no guard on the field being empty or on the new value being present): a value '
                                  'only the earlier source can represent reads back as absent' % inst)
    if n < min_instances:
        chk.fail_broken('%s: no reader with a fallback assignment found (expected >= %d)' % (rid, min_instances))


def lossy_members(prog):
    """{(generation, blob member): why} for codec members whose absent-encoding collides with a legal
    value, as decided by C03-S4 (run here into a recorder, nothing is reported)."""
    from . import c03
    from .c06 import _Recorder
    from .. import codec
    rec = _Recorder()
    ex = codec.Extractor(prog)
    for name, ge, gd in codec.all_grammars(prog):
        if ge.unknown or gd.unknown:
            continue
        c03._sentinels(prog, ex, rec, 'S4', name, ge, gd)
    out = {}
    for c in rec.calls:
        if c[0] == 'violation':
            key = c[1][1]
            parts = key.split('|')
            if len(parts) == 2 and parts[1] != 'empty-slot':
                gen = parts[0].split()[0]
                out[(gen, parts[1])] = c[1][3][:160] if len(c[1]) > 3 else key
    return out


_CTX = None


def _drop_whole(locs):
    """A whole-blob read (presence test of the optional blob) adds nothing when a member of the
    same blob is read too."""
    out = set(locs)
    for k in list(out):
        if k[3] == '' and any(o[:3] == k[:3] and o[3] for o in out):
            out.discard(k)
    return out


def _covered(k, W):
    if k in W:
        return True
    if k[3] == '':
        return any(w[:3] == k[:3] for w in W)
    return any(w[:3] == k[:3] and (w[3] == '' or w[3] == k[3] or k[3].startswith(w[3] + '.')) for w in W)


def _codec_agreement(prog, chk, R5, maps):
    by_col = codec_table(maps)
    for (t, col), d in sorted(by_col.items()):
        w = set(d.get('write', {}))
        r = set(d.get('read', {}))
        inst = '%s.%s' % (t, col)
        sm0 = next(iter(next(iter((d.get('write') or d.get('read')).values()))))
        if len(w | r) == 1 and None not in (w | r):
            chk.ok(R5, '%s <-> %s' % (inst, next(iter(w | r))), sm0.loc)
        else:
            chk.violation(R5, '%s|codec' % inst, sm0.loc,
                          'column %s is written through %s and read through %s: encoder and decoder of a '
                          'column must belong to one codec class' % (inst, sorted(map(str, w)), sorted(map(str, r))))


def codec_table(maps):
    """{(table, column): {'write': {codec class: [site maps]}, 'read': {...}}}"""
    by_col = {}
    for sm in maps:
        t = (sm.stmt.table or '').lower()
        if sm.stmt.kind in ('insert', 'update'):
            for col, src, role, p in sm.col_src:
                if src is None or col is None or role not in ('value', 'set'):
                    continue
                enc = [v for v in src.via if v in ('encode', 'to_blob')]
                if not enc:
                    continue
                cls = _codec_class_of_write(sm, src)
                by_col.setdefault((t, col.lower()), {}).setdefault('write', {}).setdefault(cls, []).append(sm)
        elif sm.stmt.kind == 'select':
            for text, col, tgt in sm.out:
                if not col or not tgt:
                    continue
                via = tgt[3] if tgt[0] == 'field' and len(tgt) > 3 else (tgt[2] if tgt[0] == 'assign' and len(tgt) > 2 else [])
                dec = [v for v in via if v in ('decode', 'from_blob')]
                cls = _codec_class_of_read(sm, col) if sm.site.sink is not None else None
                if cls is None and getattr(sm, 'callnode', None) is not None:
                    cls = _codec_class_of_enclosing(sm.caller, sm.callnode)
                if not dec and cls is None:
                    continue
                by_col.setdefault((t, col.lower()), {}).setdefault('read', {}).setdefault(cls, []).append(sm)
    return by_col


def _codec_class_of_write(sm, src):
    # type of the expression `x.encode()` receiver
    for n in walk(src.node):
        if n.get('kind') == 'CXXMemberCallExpr':
            callee = strip(children(n)[0])
            if callee.get('name') in ('encode', 'to_blob'):
                obj = strip(children(callee)[0])
                return program.norm_type_name(obj.get('type') or '').split('::')[-1]
    return None


def _codec_class_of_read(sm, col):
    # the decode call applied to the lambda parameter of this column
    sink = strip(sm.site.sink)
    idx = [i for i, (_, c, _) in enumerate(sm.out) if c == col]
    for n in walk(sink):
        if n.get('kind') == 'CallExpr':
            callee = strip(children(n)[0])
            nm = (callee.get('referencedDecl') or {}).get('name')
            if nm in ('decode', 'from_blob'):
                args = children(n)[1:]
                names = [(x.get('referencedDecl') or {}).get('name') for a in args for x in walk(a)
                         if x.get('kind') == 'DeclRefExpr']
                pnames = _lambda_param_names(sink)
                if idx and idx[0] < len(pnames) and pnames[idx[0]] in names:
                    # qualifier of the static call: type of the call expression
                    return program.norm_type_name(n.get('type') or '').split('::')[-1]
    return None


def _codec_class_of_enclosing(caller, callnode):
    """X when the caller applies X::from_blob / X::decode to the result of the helper call."""
    if caller is None or caller.body is None:
        return None
    cid = callnode.get('id')
    for n in walk(caller.body):
        if n.get('kind') == 'CallExpr':
            callee = strip(children(n)[0])
            nm = (callee.get('referencedDecl') or {}).get('name')
            if nm in ('decode', 'from_blob') and any(x.get('id') == cid for a in children(n)[1:] for x in walk(a)):
                return program.norm_type_name(n.get('type') or '').split('::')[-1]
    return None


def _lambda_param_types(sink):
    for n in walk(sink):
        if n.get('kind') == 'CXXMethodDecl' and n.get('name') == 'operator()':
            return [re.sub(r'\bconst\b|&| ', '', program.norm_type_name(p.get('type') or ''))
                    for p in children(n) if p.get('kind') == 'ParmVarDecl']
    return []


def _lambda_param_names(sink):
    for n in walk(sink):
        if n.get('kind') == 'CXXMethodDecl' and n.get('name') == 'operator()':
            return [p.get('name') for p in children(n) if p.get('kind') == 'ParmVarDecl']
    return []


def _same_or_inside(a, b):
    """location a equals b or is a member inside b (same table / column / discriminators)."""
    if a[:3] != b[:3]:
        return False
    return a[3] == b[3] or b[3] == '' or a[3].startswith(b[3] + '.')


def representative_versions(prog, order, v1lo, v1hi, v2lo, v2hi):
    """One version per interval between the enumerators the library compares its schema with."""
    bounds = set()
    for f in prog.functions.values():
        if f.body is None or f.is_pattern or '/engine/v' not in (f.file or ''):
            continue
        for n in walk(f.body):
            if n.get('kind') == 'IfStmt':
                r = rowmap._schema_cmp(children(n)[0], order)
                if r is not None:
                    bounds.add(r[1])
                    if r[0] in ('>', '<='):
                        bounds.add(r[1] + 1)
    out = []
    for gen, lo, hi in (('v1', v1lo, v1hi), ('v2', v2lo, v2hi)):
        pts = sorted({lo} | {b for b in bounds if lo < b <= hi})
        out += [(gen, p) for p in pts]
    if len(out) < 5:
        raise AnalysisBroken('only %d schema ranges found' % len(out))
    return out


def _keyvalue_agreement(chk, R2, maps):
    """MetaData / MetaDataInteger are key/value tables: each VALUES tuple is (id, type, value).
    Per statement the pairing type-enumerator -> bound parameter is read; all statements of a
    table must pair each type with the same parameter (the ranges of one bulk writer are copies
    of each other), no parameter may serve two types and no type two parameters."""
    by_table = {}
    for sm in maps:
        t = (sm.stmt.table or '').lower()
        if t not in ('metadata', 'metadatainteger') or sm.stmt.kind != 'insert' or not sm.stmt.rows:
            continue
        cols = [c.lower() for c in sm.stmt.columns]
        if 'type' not in cols or len(sm.stmt.rows) < 2:
            continue
        ti = cols.index('type')
        vi = [i for i, c in enumerate(cols) if c in ('text', 'value')]
        if not vi:
            continue
        vi = vi[0]
        pairs = []
        w = len(cols)
        for r in range(len(sm.stmt.rows)):
            tsrc = sm.binds[r * w + ti] if r * w + ti < len(sm.binds) else None
            vsrc = sm.binds[r * w + vi] if r * w + vi < len(sm.binds) else None
            tname = tsrc.const if tsrc is not None and tsrc.root and tsrc.root[0] == 'const' else (
                repr(tsrc) if tsrc is not None else None)
            vname = vsrc.root[1] if vsrc is not None and vsrc.root and vsrc.root[0] in ('param',) else None
            pairs.append((tname, vname))
        by_table.setdefault(t, []).append((sm, pairs))
    for t, lst in by_table.items():
        ref = {}
        for sm, pairs in lst:
            for ty, pv in pairs:
                ref.setdefault(ty, {}).setdefault(pv, []).append(sm)
        for sm, pairs in lst:
            bad = []
            types = [ty for ty, _ in pairs]
            if len(set(types)) != len(types):
                bad.append('a type occurs twice: %s' % sorted(x for x in set(types) if types.count(x) > 1))
            params = [pv for _, pv in pairs if pv not in (None, 'no_value', 'nullptr')]
            dup = sorted(x for x in set(params) if params.count(x) > 1)
            if dup:
                bad.append('parameter(s) %s bound for two types' % dup)
            for ty, pv in pairs:
                others = [o for o in ref[ty] if o != pv]
                if others and len(ref[ty][pv]) <= max(len(ref[ty][o]) for o in others):
                    bad.append('type %s is paired with %s here but with %s in the other statement(s)' % (ty, pv, others))
            inst = '%s %s: %d (type, value) tuples' % (sm.func.qualname.replace('djinterop::engine::', ''), t, len(pairs))
            if bad:
                for b in bad[:3]:
                    chk.violation(R2, '%s|%s|%s' % (sm.func.qualname.replace('djinterop::engine::', ''), t, b[:50]),
                                  sm.loc, '%s: %s' % (inst, b))
            else:
                chk.ok(R2, inst, sm.loc)


def _calls_in(t, pred, out=None, seen=None):
    if out is None:
        out, seen = [], set()
    if t is None or id(t) in seen or not isinstance(t, tuple):
        return out
    seen.add(id(t))
    k = t[0]
    if k in ('call', 'callm') and pred(t[1]):
        out.append(t)
    for sub in t[1:]:
        if isinstance(sub, tuple):
            if sub and isinstance(sub[0], str) and sub[0] in ('in', 'loc', 'const', 'call', 'callm', 'op', 'ite', 'phi',
                                                              'agg', 'upd', 'mem', 'vec', 'guard', 'unk', 'id'):
                _calls_in(sub, pred, out, seen)
            else:
                for y in sub:
                    if isinstance(y, tuple):
                        if len(y) == 2 and isinstance(y[0], str) and isinstance(y[1], tuple):
                            _calls_in(y[1], pred, out, seen)
                        else:
                            _calls_in(y, pred, out, seen)
    return out


def _role_pairing(prog, chk, R4, M, asnap, aupd, ver):
    """2.x converters come in pairs convert::write::N / convert::read::N.  When write::N returns a
    struct whose member m is stored in location L and read::N has a parameter named m, that
    parameter must be fed from L (a transposed argument reads the wrong column for the role)."""
    wmap = {}
    for w in aupd.writes:
        for c in _calls_in(w.value, lambda fn: fn and '::convert::write::' in fn):
            if c[0] == 'callm':
                n = c[1].split('::')[-1]
                wmap.setdefault((n, c[4].split('.')[0]), set()).add((w.table, w.column))
    checked = 0
    for x in M.fields:
        t = vf.member(asnap.ret, x)
        for c in _calls_in(t, lambda fn: fn and '::convert::read::' in fn):
            if c[0] != 'call':
                continue
            n = c[1].split('::')[-1]
            defs = [f for f in prog.by_name(c[1]) if f.body is not None]
            if len(defs) != 1:
                continue
            pnames = [p.get('name') for p in defs[0].params]
            for pn, a in zip(pnames, c[2]):
                if (n, pn) not in wmap:
                    continue
                got = {(l[0], l[1]) for l in fm.locs_of(a)}
                want = wmap[(n, pn)]
                checked += 1
                inst = 'v2 (%s..) %s: read::%s(%s) fed from %s' % (ver, x, n, pn, sorted(got))
                if got == want:
                    chk.ok(R4, inst, locstr(asnap.func.node))
                else:
                    chk.violation(R4, 'v2|%s|role %s.%s' % (x, n, pn), locstr(asnap.func.node),
                                  '%s, but update() stores write::%s(..).%s in %s: the reader takes the value '
                                  'for role "%s" from a column that holds another role' % (
                                      inst, n, pn, sorted(want), pn))
    if checked == 0:
        chk.unknown(R4, 'v2 role pairing', 'no write::N / read::N pair with matching member / parameter names found')


def _conjuncts(expr):
    """Top-level AND conjuncts of a WHERE expression as normalised strings."""
    if expr is None:
        return []
    toks = expr.toks
    out, cur, depth = [], [], 0
    for t in toks:
        if t.is_op('('):
            depth += 1
        elif t.is_op(')'):
            depth -= 1
        if depth == 0 and t.is_kw('AND'):
            out.append(cur)
            cur = []
        else:
            cur.append(t)
    if cur:
        out.append(cur)
    res = []
    for c in out:
        txt = ' '.join(str(x.val if x.kind == 'id' else x.raw).lower() for x in c)
        res.append(txt)
    return res


def _filter_agreement(chk, R2, maps):
    """Sibling queries: all SELECTs that read the same value column of a table must filter rows
    by the same residual predicate (what remains of the WHERE clause once the `column = ?`
    key / discriminator equalities are removed).  A reader that drops rows its sibling keeps
    (or keeps rows it drops) makes getter and snapshot, or write and read-back, disagree for the
    values the extra predicate excludes; a residual other than `value IS NOT NULL` excludes
    stored values."""
    groups = {}
    for sm in maps:
        st = sm.stmt
        if st.kind != 'select' or st.select is None or len(st.select.tables) != 1:
            continue
        t = (st.table or '').lower()
        cols = [c for _, c, _ in sm.out if c]
        for c in cols:
            if c.lower() in ('id', 'type'):
                continue
            residual = []
            for cj in _conjuncts(st.select.where):
                if re.match(r'^[\w.]+ = \?$', cj):
                    continue
                residual.append(cj)
            groups.setdefault((t, c.lower()), []).append((sm, tuple(sorted(residual))))
    import collections
    for (t, c), lst in sorted(groups.items()):
        if t not in ('metadata', 'metadatainteger'):
            # plain row tables: the residual must be empty or IS NOT NULL on a key
            pass
        cnt = collections.Counter(r for _, r in lst)
        major = cnt.most_common(1)[0][0]
        for sm, r in lst:
            inst = '%s reads %s.%s with row filter %s' % (sm.func.qualname.replace('djinterop::engine::', ''), t, c, list(r) or 'none')
            odd = [x for x in r if not re.match(r'^[\w.]+ is not null$', x)]
            if r != major and len(lst) > 1:
                chk.violation(R2, '%s|%s.%s|filter differs from sibling readers' % (
                    sm.func.qualname.replace('djinterop::engine::', ''), t, c), sm.loc,
                    '%s, its sibling reader(s) use %s: for the rows only one of them sees, the two observers '
                    '(single-field getter / snapshot) disagree' % (inst, list(major) or 'none'))
            elif odd and t in ('metadata', 'metadatainteger'):
                chk.violation(R2, '%s|%s.%s|filter excludes stored values' % (
                    sm.func.qualname.replace('djinterop::engine::', ''), t, c), sm.loc,
                    '%s: the predicate %s drops rows whose value the writers store (absent is encoded as NULL '
                    'only): such a value reads back as absent' % (inst, odd))
            else:
                chk.ok(R2, inst, sm.loc)


def range_copy_agreement(chk, rid, maps):
    """Statements that are schema-range copies of each other (same function, same kind, same
    table) must agree, on the columns they share, in the source bound to the column *including
    the conversion wrappers applied on the way* (to_timestamp, encode, static_cast target),
    and in the residual row filter.  A copy edited alone stores or reads a column differently in
    one schema range only."""
    import collections
    from .. import rowmap as _rm, rowrules as _rr, program as _pg
    order = _rr.enum_order(_pg.load())
    groups = collections.defaultdict(list)
    for sm in maps:
        if sm.stmt.kind in ('insert', 'update', 'select', 'delete') and \
                (sm.stmt.table or '').lower() not in ('metadata', 'metadatainteger'):
            groups[(sm.func.key, sm.func.qualname, sm.stmt.kind, (sm.stmt.table or '').lower())].append(sm)
    for (fkey, fn, kind, table), lst0 in sorted(groups.items()):
        # range copies: statements under pairwise disjoint schema-guard intervals
        iv = {}
        for sm in lst0:
            lo, hi = _rm.schema_guard(sm.func, sm.site.node, order)
            if (lo, hi) != (0, len(order) - 1):
                iv.setdefault((lo, hi), sm)
        lst = list(iv.values())
        ks = sorted(iv)
        disjoint = all(ks[i][1] < ks[i + 1][0] for i in range(len(ks) - 1))
        if len(lst) < 2 or not disjoint:
            continue
        per_col = collections.defaultdict(lambda: collections.defaultdict(list))
        filt = collections.defaultdict(list)
        for sm in lst:
            if kind in ('insert', 'update'):
                for col, src, role, p in sm.col_src:
                    if src is None or col is None or role not in ('value', 'set'):
                        continue
                    if src.root and src.root[0] == 'const':
                        sig = 'const'
                    else:
                        sig = '%s|%s' % (src.key(), ','.join(v.split('<')[0] for v in src.via))
                    per_col[col.lower()][sig].append(sm)
            elif kind == 'select':
                ptypes = _lambda_param_types(strip(sm.site.sink)) if sm.site.sink is not None else []
                for i, (text, col, tgt) in enumerate(sm.out):
                    if not col or not tgt:
                        continue
                    via = tgt[3] if tgt[0] == 'field' and len(tgt) > 3 else []
                    sig = '%s|%s' % (tgt[2] if tgt[0] == 'field' else tgt[0], ','.join(v.split('<')[0] for v in via))
                    # the C++ type the column is fetched into (a narrower type in one copy truncates there)
                    if i < len(ptypes):
                        sig += '|as ' + ptypes[i]
                    per_col[col.lower()][sig].append(sm)
            where = sm.stmt.select.where if (kind == 'select' and sm.stmt.select is not None) else sm.stmt.where
            res = tuple(sorted(c for c in _conjuncts(where) if not re.match(r'^[\w.]+ = \?$', c)))
            filt[res].append(sm)
        short = fn.replace('djinterop::engine::', '')
        bad = False
        for col, sigs in per_col.items():
            if len(sigs) > 1:
                major = max(sigs, key=lambda k: len(sigs[k]))
                for sg, sms in sigs.items():
                    if sg == major:
                        continue
                    bad = True
                    chk.violation(rid, '%s|%s %s|copies differ on %s' % (short, kind, table, col), sms[0].loc,
                                  '%s: the %s on %s at %s handles column %s as [%s] while its %d sibling range '
                                  'copy(ies) handle it as [%s]' % (short, kind, table, sms[0].loc, col, sg,
                                                                   len(sigs[major]), major))
        if len(filt) > 1:
            major = max(filt, key=lambda k: len(filt[k]))
            for r, sms in filt.items():
                if r != major:
                    bad = True
                    chk.violation(rid, '%s|%s %s|copies filter differently' % (short, kind, table), sms[0].loc,
                                  '%s: the %s on %s at %s filters rows by %s, its sibling range copies by %s' % (
                                      short, kind, table, sms[0].loc, list(r) or 'nothing', list(major) or 'nothing'))
        if not bad:
            chk.ok(rid, '%s: %d range copies of the %s on %s agree on sources, conversions and row filter' % (
                short, len(lst), kind, table), lst[0].loc)
