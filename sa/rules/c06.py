"""C06  Getters return what setters stored and setters touch only their field.

G1  R_get(X) within W_set(X)            whatever the getter reads, the setter writes
G2  getter and snapshot agree           R_get(X) == R_snap(X), same converter arguments
G3  R_get(X) within W_update(X)         the getter sees values written by update / create
S1  setter and update agree             same locations observed by anyone, same constants
                                        for an absent value
S2  no cross-field interference         a setter changes no location another field reads
S3  row scope                           every UPDATE / DELETE / REPLACE reachable from a track
                                        mutator is restricted to the handle's own id
F1  facade wiring                       every public method of track / crate / database forwards
                                        to the impl virtual of the same name
"""
import os
import re

from .. import program, callgraph, effects, rowmap, rowrules, fieldmodel as fm, valueflow as vf
from ..frontend import AnalysisBroken
from ..program import children, strip, walk, locstr
from ..report import Check
from . import c01

# the exception the property grants: the file name and extension derive from the path
DERIVED = {'relative_path': {'filename', 'filetype', 'file_extension'}}


def _S(s):
    return sorted(fm.show_loc(k) for k in s)


def _consts(t, out=None, seen=None, depth=0):
    """Constants reachable as value alternatives (phi / conditional / inlined results), i.e. what
    is written when the input is absent."""
    if out is None:
        out, seen = set(), set()
    if t is None or id(t) in seen or depth > 40:
        return out
    seen.add(id(t))
    k = t[0]
    if k == 'const':
        out.add(repr(t[1]))
    elif k == 'phi':
        for a in t[1]:
            _consts(a, out, seen, depth + 1)
    elif k == 'ite':
        _consts(t[2], out, seen, depth + 1)
        _consts(t[3], out, seen, depth + 1)
    elif k in ('call', 'callm') and t[3] is not None:
        _consts(t[3], out, seen, depth + 1)
    elif k == 'guard':
        _consts(t[3], out, seen, depth + 1)
    return out


def run(tier='quick'):
    prog = program.load()
    cg = callgraph.get(prog)
    eff = effects.Effects(prog, cg)
    rowmap.install_program(prog)
    chk = Check('C06', tier)
    chk.units = len(prog.tus)
    G1 = chk.rule('G1', 'every location the getter of X reads is written by set_X from its argument', floor=80)
    G2 = chk.rule('G2', 'getter and snapshot field read the same locations', floor=80)
    G3 = chk.rule('G3', 'every location the getter of X reads is written from X by update() / create_track()', floor=80)
    S1 = chk.rule('S1', 'set_X and update() store X in the same observed locations and write the same '
                        'constants when X is absent; locations only update() writes must be the derived ones '
                        'the property grants (file name / extension of the path)', floor=80)
    S2 = chk.rule('S2', 'set_X changes no location that the snapshot or a getter reads for another field Y '
                        '(member granularity inside blobs; a read-modify-write that stores a member back '
                        'unchanged is not a change)', floor=80)
    S3 = chk.rule('S3', 'every UPDATE / DELETE / REPLACE a track mutator reaches restricts the row to the '
                        'handle\'s own id()', floor=70)
    F1 = chk.rule('F1', 'every public method of track, crate and database forwards to the impl virtual of '
                        'the same name (overloads to the optional form)', floor=110)
    chk.assume('SQLite returns stored values unchanged; blob codecs are value-preserving views (C03, C04)')
    chk.note('not decided: values after arbitrary setter sequences (value level); G/S rules are evaluated '
             'per schema range')

    order = rowrules.enum_order(prog)
    from . import c13
    supported = c13._supported(prog)
    v2lo = order.index('schema_2_18_0')
    reps = c01.representative_versions(prog, order, 0, v2lo - 1, v2lo, max(order.index(e) for e in supported))
    global _CTX
    _CTX = (prog, cg, eff, order)
    import multiprocessing
    ctx = multiprocessing.get_context("fork")
    with ctx.Pool(min(len(reps), os.cpu_count() or 4)) as pool:
        results = pool.map(_range_worker, reps)
    for calls in results:
        for c in calls:
            getattr(chk, c[0])(*c[1], **c[2])
    # sibling readers (single-field getter path vs snapshot path) filter rows identically
    # the statements under the getters, the setters and the snapshot path tie every column to one row
    # field / parameter, in every range copy (a transposed column list in one copy makes the snapshot
    # path and the single-field path read different columns for the same field)
    G5 = chk.rule('G5', 'all statements on the track tables (both generations, every schema-range copy) tie each '
                        'column to the same row field or parameter; sibling readers filter rows identically',
                  floor=20)
    cats = rowrules.version_catalogs(prog)
    c01.statement_agreement(prog, cg, eff, chk, None, G5, None, order, cats, 0, v2lo - 1, v2lo,
                            max(order.index(e) for e in supported))
    # every 2.x setter and most 1.x setters read-modify-write a blob through decode / encode: an
    # asymmetric codec makes a setter of one field change another (value-flow treats codecs as transparent)
    S4 = chk.rule('S4', 'a setter that fails leaves the observed values unchanged and the connection usable: the '
                        'transaction guard the setters run under rolls back exactly when not committed', floor=4)
    from . import c14
    c14._guard_shape(prog, eff, chk, S4)
    G6 = chk.rule('G6', 'the codecs the setters read-modify-write through are symmetric: encoder and decoder agree '
                        'item by item and every stored member is written from itself; no member update is made on '
                        'a dropped local copy', floor=30)
    from . import c03
    c03.symmetry(prog, chk, G6)
    rowrules.lost_updates(prog, chk, G6)
    _row_scope(prog, cg, eff, chk, S3)
    _facade(prog, cg, chk, F1)
    G4 = chk.rule('G4', 'the util helpers that lift a conversion over std::optional between nullable columns and optional getter / setter values yield a value exactly when given one', floor=4)
    from .. import rowrules as _rr
    _rr.optional_lifts(prog, chk, G4)
    G7 = chk.rule('G7', 'a value stored by a setter is stored whatever rows exist: every UPDATE of a 1.x secondary table '
                        '(MetaData, MetaDataInteger, PerformanceData - rows that exist only if something wrote them) is '
                        'preceded in its function by an INSERT [OR IGNORE / OR REPLACE] into that table or followed by a '
                        'test of rows_modified(); otherwise set_x(v) after a cleared field / on a track without the row '
                        'returns normally and the getter still reports nothing', floor=4)
    from . import extra
    extra.updates_have_rows(prog, cg, eff, chk, G7)
    G8 = chk.rule('G8', 'a getter answers from the database, not from the handle: handle, implementation and table classes '
                        'hold only ids, shared pointers and table handles - no copy of a stored value that a second handle of '
                        'the same track (or an earlier setter of this one) would leave stale (rule N1 of C10)', floor=10)
    from . import c10 as _c10
    _c10.handles_stateless(prog, chk, G8)
    G9 = chk.rule('G9', 'the fixed-width primitives every blob field passes through are exact for every value (rule L1 of C02)',
                  floor=14)
    extra.primitives_exact(prog, chk, G9)
    S5 = chk.rule('S5', 'a setter stores its argument whatever is stored already: no write is skipped on a comparison of the argument with a value a getter or accessor computed from the stored row', floor=10)
    extra.writes_not_skipped_on_stored_state(prog, cg, eff, chk, S5, extra._mutators_of(prog, ('djinterop::engine::v1::engine_track_impl', 'djinterop::engine::v2::track_impl', 'djinterop::engine::v2::track_table')))
    return chk.finish('value-flow interpretation of the 60 track_impl virtuals of both implementations per '
                      'schema range (%d representative versions): per-field read / write location sets with '
                      'blob-member granularity, converter argument roles, written constants; row-scope and '
                      'facade wiring over the resolved call graph' % len(reps))


def _range_worker(args):
    """Evaluate one schema range in a forked worker; returns the recorded rule outcomes."""
    gen, vi = args
    prog, cg, eff, order = _CTX
    chk = _Recorder()
    G1, G2, G3, S1, S2 = "G1", "G2", "G3", "S1", "S2"
    M = fm.FieldModel(prog, cg, eff, assume_schema=vi, enum_order=order)
    ver = order[vi]
    rs, asnap = M.r_snap(gen)
    wu, aupd, fullu = M.w_of(gen, 'update')
    # everything anybody observes
    obs = set()
    rget = {}
    for x in M.fields + ['filename', 'file_extension']:
        r, a = M.getter(gen, x)
        if r is not None:
            rget[x] = (c01._drop_whole(r), a)
            obs |= rget[x][0]
    for x in M.fields:
        obs |= c01._drop_whole(rs[x])
    upd_values = {}
    for w in aupd.writes:
        upd_values.setdefault((w.table, w.column, w.disc), []).append(w.value)
    for x in M.fields:
        dep, allw, aset = M.setter(gen, x)
        if x not in rget or dep is None:
            continue
        R, aget = rget[x]
        chk.analysed(aget.func)
        chk.analysed(aset.func)
        for a in (aget, aset):
            if a.unknown:
                chk.unknown(G1, a.func.qualname, 'constructs outside the modelled subset: %s' % a.unknown[:2])
        inst = '%s (%s..) %s' % (gen, ver, x)
        wg = locstr(aget.func.node)
        ws = locstr(aset.func.node)
        # G1
        miss = {k for k in R if not c01._covered(k, dep)}
        if miss:
            chk.violation(G1, '%s|%s|getter reads %s' % (gen, x, ','.join(_S(miss))), wg,
                          '%s: %s() reads %s, which set_%s does not write from its argument (it writes %s)' % (
                              inst, x, _S(miss), x, _S(dep)))
        else:
            chk.ok(G1, inst, wg, detail={'read': _S(R), 'written': _S(dep)})
        # G2
        Rs = c01._drop_whole(rs[x])
        # redundant encodings: a location only one observer reads is harmless when both the
        # setter and update() always write it from X together with the others
        sym = (R - Rs) | (Rs - R)
        if all(c01._covered(k, dep) and c01._covered(k, wu[x]) for k in (R | Rs)) and (R & Rs or not R or not Rs):
            # ... provided the two observers share a location: observers that read disjoint copies agree only as
            # long as every writer (other software and the table API included) keeps the copies equal
            sym = set()
        if sym:
            chk.violation(G2, '%s|%s|getter %s / snapshot %s' % (gen, x, ','.join(_S(R)), ','.join(_S(Rs))), wg,
                          '%s: %s() reads %s but snapshot().%s reads %s: the two observers can disagree' % (
                              inst, x, _S(R), x, _S(Rs)))
        else:
            sg = _arg_roles(aget.ret)
            ss = _arg_roles(vf.member(asnap.ret, x))
            bad = [(fn, i) for (fn, i), l in sg.items() if (fn, i) in ss and ss[(fn, i)] != l]
            if bad:
                fn, i = bad[0]
                chk.violation(G2, '%s|%s|argument %d of %s' % (gen, x, i, fn.split('::')[-1]), wg,
                              '%s: the getter passes %s as argument %d of %s, snapshot() passes %s' % (
                                  inst, sorted(sg[(fn, i)]), i, fn.split('::')[-1], sorted(ss[(fn, i)])))
            else:
                chk.ok(G2, inst, wg)
        # G3
        W = wu[x]
        miss = {k for k in R if not c01._covered(k, W)}
        if miss:
            chk.violation(G3, '%s|%s|getter reads %s' % (gen, x, ','.join(_S(miss))), wg,
                          '%s: %s() reads %s, which update() does not write from snapshot.%s (it writes %s)' % (
                              inst, x, _S(miss), x, _S(W)))
        else:
            chk.ok(G3, inst, wg)
        # S1
        only_set = {k for k in dep if any(c01._same_or_inside(k, o) or c01._same_or_inside(o, k) for o in obs)
                    and not c01._covered(k, W)}
        only_upd = {k for k in W if any(c01._same_or_inside(k, o) or c01._same_or_inside(o, k) for o in obs)
                    and not c01._covered(k, dep)}
        granted = set()
        probs = []
        if only_set:
            probs.append(('setter-only ' + ','.join(_S(only_set)),
                          'set_%s writes %s, which update() does not write from %s' % (x, _S(only_set), x)))
        if only_upd - granted:
            probs.append(('update-only ' + ','.join(_S(only_upd - granted)),
                          'update() writes %s from %s, which set_%s leaves untouched although observers read it'
                          % (_S(only_upd - granted), x, x)))
        # constants for an absent value
        if not probs:
            sv = {}
            for w in aset.writes:
                sv.setdefault((w.table, w.column, w.disc), []).append(w.value)
            for key in sv:
                if key not in upd_values:
                    continue
                if not any(c01._same_or_inside((key[0], key[1], key[2], ''), o) or
                           c01._same_or_inside(o, (key[0], key[1], key[2], '')) for o in obs):
                    continue
                if not any(fm.ins_of(v) for v in sv[key]):
                    continue
                uvals = [v for v in upd_values[key] if x in fm.ins_of(v)]
                if not uvals:
                    continue
                cs = set().union(*[_const_alts(v) for v in sv[key] if fm.ins_of(v)])
                cu = set().union(*[_const_alts(v) for v in uvals])
                if cs != cu and not fm.blob_members(sv[key][0]):
                    probs.append(('constants %s.%s' % (key[0], key[1]),
                                  'for an absent / alternative value set_%s writes constant(s) %s into %s.%s '
                                  'but update() writes %s' % (x, sorted(cs), key[0], key[1], sorted(cu))))
        if probs:
            for kk, pr in probs[:2]:
                chk.violation(S1, '%s|%s|%s' % (gen, x, kk), ws, '%s: %s' % (inst, pr))
        else:
            chk.ok(S1, inst, ws)
        # S2
        changed = _changed_locations(aset)
        clash = []
        for y in M.fields + ['filename', 'file_extension']:
            if y == x or y in DERIVED.get(x, ()) or (x == 'relative_path' and y in ('filename', 'file_extension')):
                continue
            Ry = set(c01._drop_whole(rs[y])) if y in rs else set()
            if y in rget:
                Ry |= rget[y][0]
            hit = {k for k in changed if any(c01._same_or_inside(k, r) or c01._same_or_inside(r, k) for r in Ry)
                   and not any(c01._same_or_inside(k, r) or c01._same_or_inside(r, k) for r in (R | c01._drop_whole(rs[x])))}
            # a location both fields legitimately share (written from X by update as well) is
            # a shared encoding, not interference
            hit = {k for k in hit if not c01._covered(k, W)}
            if hit:
                clash.append((y, hit))
        if clash:
            for y, hit in clash[:3]:
                chk.violation(S2, '%s|set_%s|changes %s' % (gen, x, y), ws,
                              '%s: set_%s changes %s, which is read for %s: setting one field alters another' % (
                                  inst, x, _S(hit), y))
        else:
            chk.ok(S2, inst, ws, detail={'changed': _S(changed)[:8]})

    return chk.calls


class _Recorder:
    """Collects rule outcomes in a worker process (replayed on the real Check in the parent)."""

    def __init__(self):
        self.calls = []

    def ok(self, *a, **k):
        self.calls.append(("ok", a, k))

    def violation(self, *a, **k):
        self.calls.append(("violation", a, k))

    def unknown(self, *a, **k):
        self.calls.append(("unknown", a, k))

    def analysed(self, f):
        self.calls.append(("analysed", (f if isinstance(f, str) else f.key,), {}))


_CTX = None


def _const_alts(v):
    # 'nullopt' / default are the natural encoding of "absent" (bound as NULL)
    return {c for c in _consts(v) if c not in ("'default'", "'nullopt'", "'null'")}


def _arg_roles(t):
    """{(converter fn, argument index): set of coarse locations} for convert::read calls."""
    out = {}
    for c in c01._calls_in(t, lambda fn: fn and ('::convert::read::' in fn)):
        if c[0] != 'call':
            continue
        for i, a in enumerate(c[2]):
            out.setdefault((c[1], i), set()).update((l[0], l[1]) for l in fm.locs_of(a))
    return out


def _changed_locations(aset):
    """Locations a setter writes with a value other than the location's own current value
    (member granularity; INSERTs of an all-constant default row are row materialisation)."""
    out = set()
    by_site = {}
    for w in aset.writes:
        by_site.setdefault((w.loc, w.kind), []).append(w)
    for (loc, kind), ws in by_site.items():
        if kind == 'insert' and all(not fm.ins_of(w.value) and not fm.locs_of(w.value) for w in ws) \
                and len(ws) > 3:
            continue
        for w in ws:
            if w.column == 'id' and not w.disc:
                continue
            ms = fm.blob_members(w.value)
            if ms:
                for m in ms:
                    mv = vf.member(w.value, m)
                    key = (w.table, w.column, w.disc, m)
                    if not _is_identity(mv, key):
                        out.add(key)
            else:
                key = (w.table, w.column, w.disc, '')
                if not _is_identity(w.value, key):
                    out.add(key)
    return out


def _is_identity(v, key):
    ls = [x for x in vf.leaves(v)]
    locs = {fm.loc_key(x) for x in ls if x[0] == 'loc'}
    ins = [x for x in ls if x[0] == 'in']
    if ins:
        return False
    if not locs:
        return False
    if not (all(k[:3] == key[:3] and (k[3] == key[3] or k[3].startswith(key[3] + '.') or key[3] == '') for k in locs)
            and not (_consts(v) - {"'nullopt'", "'default'"})):
        return False
    # "stored back unchanged" means the value read travels to the write as it is: a value that went through a
    # conversion (a repository function that computes its result: resampling, re-quantising, re-deriving) is a new
    # value even when its only storage input is the location itself - what else it depends on (sizes, other
    # fields consulted inside the callee) is exactly what the term does not show
    return _plain_copy(v)


def _plain_copy(t, depth=0):
    """The term is the stored value itself, carried to the write by copies only: a location; a call whose inlined
    result is such a value (table getters, column readers - followed through what they return, not by name); a
    merge whose other alternatives are the absent constants; a member selection; a std helper that passes its
    argument through.  Anything that computes (an operator, a constructor, a container rebuilt element by element,
    an unknown) makes a new value."""
    if not isinstance(t, tuple) or not t or depth > 40:
        return False
    k = t[0]
    if k == 'loc':
        return True
    if k in ('call', 'callm'):
        inl = t[3] if len(t) > 3 else None
        if isinstance(inl, tuple) and inl:
            return _plain_copy(inl, depth + 1)
        if str(t[1]).split('::')[-1] in vf.TRANSPARENT_CALLS and t[2]:
            return all(_plain_copy(a, depth + 1) for a in t[2] if isinstance(a, tuple))
        return False
    if k == 'phi':
        # alternatives that carry no stored value and no argument (the absent constants, a default-constructed
        # object for a missing row) are not provenance
        alts = [a for a in t[1] if isinstance(a, tuple) and any(x[0] in ('loc', 'in') for x in vf.leaves(a))]
        return bool(alts) and all(_plain_copy(a, depth + 1) for a in alts)
    if k == 'mem':
        return _plain_copy(t[1], depth + 1)
    if k == 'op':
        return str(t[1]) in vf.TRANSPARENT_CALLS and bool(t[2]) and all(_plain_copy(a, depth + 1) for a in t[2])
    if k == 'ite':
        return _plain_copy(t[2], depth + 1) and (_plain_copy(t[3], depth + 1) or
                                                 (isinstance(t[3], tuple) and t[3] and t[3][0] == 'const'))
    if k == 'guard':
        return _plain_copy(t[3], depth + 1)
    return False


def _row_scope(prog, cg, eff, chk, S3):
    seen = set()
    for gen in ('v1', 'v2'):
        cls = fm.GEN[gen]['cls']
        for f in sorted(prog.functions.values(), key=lambda x: (x.file, x.line)):
            if f.cls != cls or f.body is None or not (f.name.startswith('set_') or f.name == 'update'):
                continue
            ip = vf.Interp(prog, cg, eff)
            ip.run(f)
            for w in ip.writes:
                if w.kind not in ('update', 'delete'):
                    continue
                key = (f.qualname, w.loc)
                if key in seen:
                    continue
                seen.add(key)
                where = w.where or {}
                idv = where.get('id') or where.get('trackid')
                inst = '%s -> %s %s at %s' % (f.qualname.replace('djinterop::engine::', ''), w.kind, w.table, w.loc)
                if idv is not None and (idv == ('id',) or idv[0] == 'in' and f.name == 'update' or
                                        any(x == ('id',) for x in _flat(idv))):
                    chk.ok(S3, inst, w.loc)
                else:
                    chk.violation(S3, '%s|%s %s|row scope' % (f.qualname.replace('djinterop::engine::', ''), w.kind, w.table),
                                  w.loc, '%s: the statement is not restricted to id = id() of the handle (where: %s): '
                                  'it can change rows of other tracks' % (inst, {k: vf.shape(v)[:30] for k, v in where.items()}))


def _flat(t, seen=None, depth=0):
    if seen is None:
        seen = set()
    if t is None or id(t) in seen or depth > 30 or not isinstance(t, tuple):
        return []
    seen.add(id(t))
    out = [t]
    for sub in t[1:]:
        if isinstance(sub, tuple):
            if sub and isinstance(sub[0], str):
                out += _flat(sub, seen, depth + 1)
            else:
                for y in sub:
                    if isinstance(y, tuple):
                        out += _flat(y, seen, depth + 1)
    return out


def _facade(prog, cg, chk, F1):
    for cls, impl in (('djinterop::track', 'djinterop::track_impl'), ('djinterop::crate', 'djinterop::crate_impl'),
                      ('djinterop::database', 'djinterop::database_impl')):
        for m in effects.public_methods(prog, cls):
            name = m.get('name')
            if name.startswith('operator') or name in ('add_tracks',):
                continue
            defs = [d for d in prog.definitions_for(prog.records[cls].tu, m, cls + '::' + name)
                    if d.body is not None and not d.is_pattern]
            if not defs:
                continue
            f = defs[0]
            chk.analysed(f)
            targets = []
            for e in cg.edges(f):
                if e.kind == 'virtual' and (e.name or '').startswith(impl + '::'):
                    targets.append(e.name.split('::')[-1])
                elif e.kind == 'direct' and (e.name or '').startswith(cls + '::'):
                    targets.append('self:' + e.name.split('::')[-1])
            inst = '%s::%s %s' % (cls, name, m.get('type') or '')
            if name in targets or ('self:' + name) in targets:
                chk.ok(F1, inst, locstr(f.node))
            elif name in ('id',) and not targets:
                chk.ok(F1, inst + ' (reads the cached id)', locstr(f.node))
            else:
                # methods that are not a thin forwarder to a same-name virtual are classified:
                # id() / db() accessors and add-many loops forward to differently named virtuals
                alt = {'db': 'db', 'create_root_crate_after': 'create_root_crate_after'}
                chk.violation(F1, '%s::%s|forwards to %s' % (cls.split('::')[-1], name, sorted(set(targets))), locstr(f.node),
                              '%s calls %s, not the impl virtual of the same name: the public operation would '
                              'run another operation' % (inst, sorted(set(targets)) or 'no impl virtual'))
