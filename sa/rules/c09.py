"""C09  Ordered listings keep every sibling and entry exactly once, in order.

Claimed narrowly: three necessary conditions that are visible in the shape of the code and the
DDL.  Order preservation itself (SQLite trigger and UPDATE semantics over histories) is not
decided by static analysis.

P1  position pair: parentListId and nextListId change together; a successor taken from another
    row is checked to be a sibling first (rules T6 of C07)
P2  splice triggers present in the DDL of every 2.x version
P3  chain-walk preconditions: the walkers start from the sentinel the writers use and test the
    tail lookup before using it; add_back links a new entry after the current tail
"""
from .. import program, callgraph, effects, valueflow as vf, rowrules
from ..frontend import AnalysisBroken
from ..program import children, strip, walk, locstr
from ..report import Check
from . import c07, c08
from .c07 import evaluate, _short

V2 = 'djinterop::engine::v2::'


def splice_triggers_present(prog, chk, P2):
    """Every supported 2.x DDL has the triggers that splice the sibling and entry chains (shared with C11)."""
    order = rowrules.enum_order(prog)
    cats = rowrules.version_catalogs(prog)
    from . import c13
    supported = set(c13._supported(prog))
    wanted = [('Playlist', 'INSERT', 'BEFORE', 'nextlistid'), ('Playlist', 'INSERT', 'AFTER', 'nextlistid'),
              ('Playlist', 'DELETE', 'AFTER', 'nextlistid'), ('PlaylistEntity', 'DELETE', 'BEFORE', 'nextentityid')]
    for en in order:
        if en not in supported or not rowrules._gen2(en):
            continue
        cat = cats[en]['main']
        for table, event, timing, col in wanted:
            hit = [t for t in cat.triggers.values() if (t.table or '').lower() == table.lower()
                   and (t.event or '').upper() == event and (t.timing or '').upper() == timing and
                   any(s.kind == 'update' and (s.table or '').lower() == table.lower() and
                       any(c.lower() == col for c, _ in s.sets) for s in (t.body or []))]
            inst = '%s: %s %s trigger on %s rewrites %s' % (en, timing, event, table, col)
            if hit:
                chk.ok(P2, inst, en)
            else:
                chk.violation(P2, '%s|%s %s %s' % (en, timing.lower(), event.lower(), table), en,
                              inst + ': no such trigger in the DDL this version\'s creator issues - the chain is '
                              'not spliced and listings lose or duplicate items')
        # deleting a playlist must also delete its children (they would otherwise keep a dead parent)
        hit = [t for t in cat.triggers.values() if (t.table or '').lower() == 'playlist'
               and (t.event or '').upper() == 'DELETE' and
               any(s.kind == 'delete' and (s.table or '').lower() == 'playlist' for s in (t.body or []))]
        if hit:
            chk.ok(P2, '%s: DELETE trigger on Playlist removes the child lists' % en, en)
        else:
            chk.violation(P2, '%s|children kept on delete' % en, en,
                          '%s: no DELETE trigger on Playlist removes the child lists' % en)



def _tail_lookup_guarded(f):
    """The iterator a chain walker obtains from find() is compared with end() and the function leaves (throw /
    return) when they are equal.  Decided on what the test compares, not on how it is spelled: the end iterator
    may be kept in a local initialised once from end() / cend(), the comparison may be held in a named boolean,
    negated, written as `it == end` with the leaving branch first or as `it != end` with the leaving branch in
    the else, or be one operand of a || / && chain that still implies `it != end` on the continuing path."""
    from .. import rowmap

    def inits(d):
        return [x for x in children(d) if not x['kind'].endswith('Attr') and not x['kind'].endswith('Comment')]

    def member_call(n, names):
        n = strip(n, explicit=True)
        while n.get('kind') in ('MaterializeTemporaryExpr', 'CXXBindTemporaryExpr', 'ExprWithCleanups',
                                'CXXConstructExpr', 'ImplicitCastExpr') and len(children(n)) == 1:
            n = strip(children(n)[0], explicit=True)
        return n.get('kind') == 'CXXMemberCallExpr' and strip(children(n)[0]).get('name') in names

    assigned = set()
    for n in walk(f.body):
        k = n.get('kind')
        if k == 'BinaryOperator' and n.get('opcode') == '=':
            assigned.add((strip(children(n)[0]).get('referencedDecl') or {}).get('id'))
        elif k == 'CXXOperatorCallExpr' and len(children(n)) == 3 and \
                (strip(children(n)[0]).get('referencedDecl') or {}).get('name') == 'operator=':
            assigned.add((strip(children(n)[1]).get('referencedDecl') or {}).get('id'))
    tail_ids, end_ids = set(), set()
    for n in walk(f.body):
        if n.get('kind') == 'VarDecl':
            init = inits(n)
            if not init:
                continue
            if any(x.get('kind') == 'CXXMemberCallExpr' and strip(children(x)[0]).get('name') == 'find'
                   for x in walk(init[-1])):
                tail_ids.add(n.get('id'))
            elif member_call(init[-1], ('end', 'cend')) and n.get('id') not in assigned:
                end_ids.add(n.get('id'))      # `const auto last = map.end();` - never re-assigned
    flags = rowmap._bool_locals(f)

    def ref_id(n):
        n = strip(n, explicit=True)
        while n.get('kind') in ('MaterializeTemporaryExpr', 'CXXBindTemporaryExpr', 'ExprWithCleanups',
                                'CXXConstructExpr', 'ImplicitCastExpr') and len(children(n)) == 1:
            n = strip(children(n)[0], explicit=True)
        return (n.get('referencedDecl') or {}).get('id') if n.get('kind') == 'DeclRefExpr' else None

    def is_end(n):
        return member_call(n, ('end', 'cend')) or ref_id(n) in end_ids

    def not_end_when(cond, truth, depth=0):
        """cond evaluating to `truth` implies tail != end."""
        n = strip(cond, explicit=True)
        k = n.get('kind')
        c = children(n)
        if depth > 6:
            return False
        if k == 'UnaryOperator' and n.get('opcode') == '!':
            return not_end_when(c[0], not truth, depth + 1)
        if k == 'DeclRefExpr':
            init = flags.get((n.get('referencedDecl') or {}).get('id'))
            return init is not None and not_end_when(init, truth, depth + 1)
        op, a, b = None, None, None
        if k == 'BinaryOperator':
            op, a, b = n.get('opcode'), c[0], c[1]
        elif k == 'CXXOperatorCallExpr' and len(c) == 3:
            op = ((strip(c[0]).get('referencedDecl') or {}).get('name') or '').replace('operator', '')
            a, b = c[1], c[2]
        elif k == 'CXXOperatorCallExpr' and len(c) == 2 and \
                (strip(c[0]).get('referencedDecl') or {}).get('name') == 'operator!':
            return not_end_when(c[1], not truth, depth + 1)
        elif len(c) == 1:
            return not_end_when(c[0], truth, depth + 1)
        if op in ('==', '!='):
            if (ref_id(a) in tail_ids and is_end(b)) or (ref_id(b) in tail_ids and is_end(a)):
                return (op == '!=') == truth
            return False
        if (op == '&&' and truth) or (op == '||' and not truth):
            return not_end_when(a, truth, depth + 1) or not_end_when(b, truth, depth + 1)
        return False

    def leaves_(n):
        return any(x.get('kind') in ('CXXThrowExpr', 'ReturnStmt') for x in walk(n))
    for n in walk(f.body):
        if n.get('kind') != 'IfStmt':
            continue
        c = children(n)
        has_else = n.get('hasElse')
        pre = c[:-2] if has_else else c[:-1]
        conds = [p for p in pre if p.get('kind') != 'DeclStmt']
        if not conds:
            continue
        then, els = (c[-2], c[-1]) if has_else else (c[-1], None)
        if not_end_when(conds[-1], False) and leaves_(then):
            return True
        if els is not None and not_end_when(conds[-1], True) and leaves_(els):
            return True
    return False


def run(tier='quick'):
    prog = program.load()
    cg = callgraph.get(prog)
    eff = effects.Effects(prog, cg)
    chk = Check('C09', tier)
    chk.units = len(prog.tus)
    P1 = chk.rule('P1', 'a 2.x operation that changes parentListId re-assigns nextListId, and one that links a '
                        'new list in front of another row\'s successor first checks (un-conjoined) that this row '
                        'is a sibling', floor=3)
    P2 = chk.rule('P2', 'the DDL of every 2.x version splices the sibling chain on INSERT (before and after) and '
                        'DELETE of a Playlist and relinks the entity chain on DELETE of a PlaylistEntity (matched '
                        'on timing / event / table / assigned column of the parsed triggers)', floor=25)
    P3 = chk.rule('P3', 'both chain walkers start at the no-successor sentinel the writers store, test the tail '
                        'lookup against end() before using it (a throw, not an assert), and add_back appends '
                        'behind the current tail inside one transaction; the walk direction matches the insertion side', floor=8)
    chk.assume('SQLite fires the triggers as declared; the relinking they perform is correct (not decided)')
    chk.note('not decided: that listings return every item exactly once in the documented order after '
             'arbitrary histories - this needs the semantics of the triggers and UPDATE statements')

    c07.position_pair(prog, cg, eff, chk, P1)
    c07.successor_is_sibling(prog, cg, eff, chk, P1)

    # ---- P2 ------------------------------------------------------------------------------
    splice_triggers_present(prog, chk, P2)

    c08.chain_trigger_siblings(prog, chk, P2)
    # the splice statements match rows by identifiers of one kind (entity with entity, list with list)
    from .. import domains
    domains.apply_rule(prog, eff, chk, P2, gens=(2,), trigger_tables=('playlist', 'playlistentity'), library=False)
    # ---- P3 ------------------------------------------------------------------------------
    # the walkers: whatever function walks the sibling chain for root_ids() / child_ids() (a file-local helper of
    # any name, or the listing functions themselves), and the walker of the entry chain
    walkers = [(f_, 'PLAYLIST_NO_NEXT_LIST_ID') for f_ in c07.chain_walkers(
        prog, cg, (V2 + 'playlist_table::root_ids', V2 + 'playlist_table::child_ids'))]
    if not walkers:
        raise AnalysisBroken('no function walks the sibling chain for playlist_table::root_ids / child_ids')
    ew = c07.chain_walkers(prog, cg, (V2 + 'playlist_entity_table::get_for_list',))
    if not ew:
        raise AnalysisBroken('no function walks the entry chain for playlist_entity_table::get_for_list')
    walkers += [(f_, 'PLAYLIST_ENTITY_NO_NEXT_ENTITY_ID') for f_ in ew]
    for f, sentinel in walkers:
        qn = f.qualname
        chk.analysed(f)
        sval = c07._const(prog, sentinel)
        finds = []
        for n in walk(f.body):
            if n.get('kind') == 'CXXMemberCallExpr' and strip(children(n)[0]).get('name') == 'find':
                arg = children(n)[1] if len(children(n)) > 1 else None
                refs = [(x.get('referencedDecl') or {}).get('name') for x in walk(arg)] if arg else []
                finds.append((n, sentinel in refs or program.literal_value(arg) == sval if arg is not None else False))
        inst = '%s starts the walk at %s' % (_short(qn), sentinel)
        if any(s for _, s in finds):
            chk.ok(P3, inst, locstr(f.node))
        else:
            chk.violation(P3, '%s|start sentinel' % _short(qn), locstr(f.node), inst + ': no lookup of the sentinel found')
        # the tail lookup is tested before use by something that leaves (throw / return), not an assert
        guarded = _tail_lookup_guarded(f)
        inst = '%s tests the tail lookup against end() before dereferencing it' % _short(qn)
        if guarded:
            chk.ok(P3, inst, locstr(f.node))
        else:
            chk.violation(P3, '%s|tail lookup unchecked' % _short(qn), locstr(f.node),
                          inst + ': no if (curr == ...end()) throw/return found (an assert is compiled out): a chain '
                          'without last element dereferences end()')
    # walk direction <-> insertion side: the maps are keyed by the *successor* column, so a walk
    # that starts at the tail sentinel visits the chain backwards and must prepend
    from .. import rowmap
    rowmap.install_program(prog)
    for qn in (V2 + 'playlist_table::root_ids', V2 + 'playlist_table::child_ids',
               V2 + 'playlist_entity_table::get_for_list'):
        fs = [f for f in prog.by_name(qn) if f.body is not None and not f.is_pattern]
        if not fs:
            raise AnalysisBroken('anchor function %s not found' % qn)
        f = fs[0]
        chk.analysed(f)
        sms = [sm for sm in rowmap.site_maps(prog, cg, eff, f) if sm.stmt.kind == 'select' and sm.site.sink is not None]
        keycol = None
        for sm in sms:
            lam = strip(sm.site.sink)
            pnames = []
            for x in walk(lam):
                if x.get('kind') == 'CXXMethodDecl' and x.get('name') == 'operator()':
                    pnames = [p.get('name') for p in children(x) if p.get('kind') == 'ParmVarDecl']
                    break
            for x in walk(lam):
                if x.get('kind') == 'CXXOperatorCallExpr':
                    c = children(x)
                    if (strip(c[0]).get('referencedDecl') or {}).get('name') == 'operator[]' and len(c) > 2 and \
                            'map' in (strip(c[1]).get('type') or ''):
                        k = strip(c[2], explicit=True)
                        kn = (k.get('referencedDecl') or {}).get('name')
                        if kn in pnames and pnames.index(kn) < len(sm.out):
                            keycol = sm.out[pnames.index(kn)][1]
        if keycol is None:
            chk.unknown(P3, _short(qn), 'the map the chain is loaded into, or its key column, was not recognised')
            continue
        # the walker: this function or the repository function the map is handed to
        walker = f
        for t in c07.chain_walkers(prog, cg, (qn,)):
            if t is not f:
                walker = t
        ins = set()
        for x in walk(walker.body):
            if x.get('kind') in ('DoStmt', 'WhileStmt', 'ForStmt'):
                for y in walk(x):
                    if y.get('kind') == 'CXXMemberCallExpr':
                        nm = strip(children(y)[0]).get('name')
                        if nm in ('push_front', 'push_back', 'emplace_front', 'emplace_back', 'insert'):
                            ins.add(nm)
        succ_keyed = keycol.lower().startswith('next')
        want = {'push_front', 'emplace_front'} if succ_keyed else {'push_back', 'emplace_back'}
        inst = '%s: chain loaded into a map keyed by %s, walked from the %s, elements %s' % (
            _short(qn), keycol, 'tail sentinel' if succ_keyed else 'head', '/'.join(sorted(ins)) or '?')
        if ins and ins <= want | {'insert'} and ins & want:
            chk.ok(P3, inst, locstr(walker.node))
        elif not ins:
            chk.unknown(P3, _short(qn), 'no insertion into the result inside the walk loop recognised')
        else:
            chk.violation(P3, '%s|walk direction' % _short(qn), locstr(walker.node),
                          inst + ': a walk from the tail visits the last item first, so appending yields the listing '
                          'in reverse order (prepending is required), and vice versa')
    # add_back: new entry stored with the no-next sentinel, previous tail relinked, one transaction
    for f, ip, ret in evaluate(prog, cg, eff, V2 + 'playlist_entity_table::add_back'):
        chk.analysed(f)
        sval = c07._const(prog, 'PLAYLIST_ENTITY_NO_NEXT_ENTITY_ID')
        ins = [w for w in ip.writes if w.kind == 'insert' and w.column == 'nextentityid']
        upd = [w for w in ip.writes if w.kind == 'update' and w.column == 'nextentityid']
        inst = 'add_back stores the new entry as tail (nextEntityId = %s) and relinks the old tail' % sval
        ok_ins = ins and all(vf._constval(w.value) == sval for w in ins)
        ok_upd = upd and all('listid' in {c.lower() for c in (w.where or {})} for w in upd)
        if ok_ins and ok_upd:
            chk.ok(P3, inst, ins[0].loc)
        else:
            chk.violation(P3, 'v2::playlist_entity_table::add_back|not appended as tail',
                          ins[0].loc if ins else locstr(f.node),
                          'add_back: %s%s: entries added later are not listed after the earlier ones or the list '
                          'splits into fragments' % (
                              '' if ok_ins else 'the INSERT stores nextEntityId = %s instead of the sentinel; ' % (
                                  vf.shape(ins[0].value)[:40] if ins else 'nothing'),
                              '' if ok_upd else 'no UPDATE relinks the previous tail'))
    # add_back's duplicate look-up identifies an entry by its complete unique key (list, database, track):
    # a look-up on fewer columns matches another entry and the add is silently dropped
    from . import c18 as _c18
    _order = rowrules.enum_order(prog)
    _cats = rowrules.version_catalogs(prog)
    from . import c13 as _c13
    _sup = set(_c13._supported(prog))
    _v2 = [i for i, en in enumerate(_order) if en in _sup and rowrules._gen2(en)]
    _c18._lookup_keys(prog, cg, eff, chk, P3, _order, _cats, min(_v2), max(_v2))
    # ---- P4: the multi-statement relinking is one atomic unit ---------------------------------
    from .. import atomic
    P4 = chk.rule('P4', 'the operations that relink a chain with several statements (playlist_table::update, '
                        'playlist_entity_table::add_back) execute them inside one transaction: a failure in the '
                        'middle must not leave a half-spliced chain', floor=2)
    an = atomic.Analyzer(prog, cg, eff)
    for qn in (V2 + 'playlist_table::update', V2 + 'playlist_entity_table::add_back'):
        for f in [x for x in prog.by_name(qn) if x.body is not None]:
            exits, finds = an.run_entry(f)
            bad = [x for x in finds if x.rule in ('A1', 'A2', 'A3')]
            inst = '%s relinks inside one committed transaction' % _short(qn)
            if bad:
                chk.violation(P4, '%s|%s' % (_short(qn), bad[0].rule), bad[0].loc,
                              '%s: %s (first write unit at %s): a statement that fails after the first one leaves '
                              'the sibling / entity chain half relinked' % (_short(qn), bad[0].what, bad[0].first))
            else:
                chk.ok(P4, inst, locstr(f.node))
    # the guard these operations rely on begins, commits and rolls back as its name promises
    from . import c14
    c14._guard_shape(prog, eff, chk, P4)
    P5 = chk.rule('P5', 'a statement that fetches the rows of a sibling / entry chain for the walk from its tail restricts '
                        'them by the group key alone (parentListId / listId): any further predicate removes a link and '
                        'every row in front of it disappears from the listing', floor=3)
    from . import extra
    extra.chain_listings_complete(prog, cg, eff, chk, P5)
    P6 = chk.rule('P6', 'entries are listed in the order they were added: the function that inserts a row into PlaylistEntity makes the previous tail point at it: the id written into the old '
                        'tail is last_insert_rowid() read after the INSERT (not a predicted MAX(id) + 1, wrong once the '
                        'highest row of the AUTOINCREMENT table was deleted), and the old tail is found as the row of the '
                        'list whose next-pointer is the sentinel 0 (not by its id)', floor=1)
    extra.new_tail_linked(prog, cg, eff, chk, P6)
    return chk.finish('parsed triggers of every supported 2.x DDL; value-flow interpretation of the 2.x crate '
                      'move / create-after operations and of add_back; structural check of the two chain walkers')
