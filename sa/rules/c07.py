"""C07  All crate queries describe one well-formed forest (relation-role and guard clauses).

T1  relation roles of parent / children / descendants / roots / lookups
T2  cycle guard: set_parent queries the closure relation and can throw before its first write
T3  name validation precedes writes on every create / rename entry point; validators agree
T4  no statement assigns the id of Crate / List / Playlist (positive control in the DDL)
T5  sentinel agreement between named constants and SQL literals
T6  position pair: a changed parentListId comes with a re-assigned nextListId
T7  removal completeness (referential cleanup): see C08-K2
"""
import json
import os
import re

from .. import program, callgraph, effects, valueflow as vf, rowrules, sql, sites as sites_mod
from ..frontend import AnalysisBroken, VERIF
from ..program import children, strip, walk, locstr
from ..report import Check

SPEC = os.path.join(VERIF, 'spec', 'roles.json')
V1 = 'djinterop::engine::v1::'
V2 = 'djinterop::engine::v2::'


def _short(q):
    return q.replace('djinterop::engine::', '')


def evaluate(prog, cg, eff, qn, nparams=None):
    fs = [f for f in prog.by_name(qn) if f.body is not None and not f.is_pattern]
    if nparams is not None:
        fs = [f for f in fs if len(f.params) == nparams]
    if not fs:
        raise AnalysisBroken('anchor function %s not found' % qn)
    out = []
    for f in fs:
        ip = vf.Interp(prog, cg, eff)
        ret = ip.run(f)
        out.append((f, ip, ret))
    return out


def _is_handle_id(t):
    return any(x == ('id',) for x in _flat(t))


def _flat(t, seen=None, depth=0):
    if seen is None:
        seen = set()
    if t is None or id(t) in seen or depth > 30 or not isinstance(t, tuple):
        return []
    seen.add(id(t))
    out = [t]
    for sub in t[1:]:
        if isinstance(sub, tuple):
            if sub and isinstance(sub[0], str):
                out += _flat(sub, seen, depth + 1)
            else:
                for y in sub:
                    if isinstance(y, tuple):
                        out += _flat(y, seen, depth + 1)
    return out


def _tables_of(rd):
    st = rd.stmt
    return [t.lower() for (_, t, _) in (st.tables or [])] or [(rd.table or '').lower()]


def _stray_result_reads(ip, ret, accepted):
    """Reads whose output reaches the value the query returns although they are not among the accepted reads
    (the reads of the relation that carries the query's meaning)."""
    retlocs = {(l[1], l[2]) for l in vf.leaves(ret) if l and l[0] == 'loc'} if ret is not None else set()
    out = []
    for rd in ip.reads:
        if any(rd is a for a in accepted):
            continue
        if any(o and o[0] == 'loc' and (o[1], o[2]) in retlocs for o in rd.outs):
            out.append(rd)
    return out


def run(tier='quick'):
    prog = program.load()
    cg = callgraph.get(prog)
    eff = effects.Effects(prog, cg)
    chk = Check('C07', tier)
    chk.units = len(prog.tus)
    spec = json.load(open(SPEC))
    T1 = chk.rule('T1', 'each structural crate query reads the relation that carries its meaning (table, column '
                        'bound to the handle id, column returned); children and parent read one relation in '
                        'opposite directions; root queries use the root convention', floor=12)
    T2 = chk.rule('T2', 'set_parent reads the closure relation of the crate being moved and can throw on it '
                        'before its first write (a self-parent test alone does not exclude longer cycles)', floor=2)
    T3 = chk.rule('T3', 'every create / rename entry point validates the name (empty, semicolon) before its '
                        'first write, and the validators agree', floor=8)
    T4 = chk.rule('T4', 'no statement of the library assigns the id column of Crate / List / Playlist (the DDL '
                        'trigger that does is the positive control)', floor=30)
    T5 = chk.rule('T5', 'the named sentinels (PARENT_LIST_ID_NONE, PLAYLIST_NO_NEXT_LIST_ID) equal the '
                        'literals the SQL compares with', floor=3)
    T6 = chk.rule('T6', 'when a 2.x crate operation changes parentListId it also re-assigns nextListId: the '
                        'pair is one position', floor=3)
    chk.assume('SQLite evaluates the queries as written; recursive views terminate on an acyclic forest (T2)')
    chk.note('not decided: equality of the query results as sets after arbitrary histories; removal '
             'completeness is rule K2 of C08')

    # ---- T1 --------------------------------------------------------------------------
    derived = {}
    for qn, role in spec['queries'].items():
        for f, ip, ret in evaluate(prog, cg, eff, qn):
            chk.analysed(f)
            want_t = role['table'].lower()
            hits = []
            for rd in ip.reads:
                if want_t not in _tables_of(rd):
                    continue
                keyed = {c.lower() for c, v in rd.where.items() if _is_handle_id(v)}
                hits.append((rd, keyed))
            inst = '%s reads %s: %s -> %s' % (_short(qn), role['table'], role['key'], role['result'])
            ok = [h for h in hits if role['key'].lower() in h[1]]
            if role.get('result'):
                res = role['result'].lower()
                ok = [h for h in ok if res in [c.lower() for c in h[0].columns] or
                      res in [x for e, a in (h[0].stmt.select.items if h[0].stmt.select else [])
                              for x in [y[1].lower() for y in e.columns_used()]]]
            stray = _stray_result_reads(ip, ret, [h[0] for h in ok]) if ok else []
            if ok and stray:
                rd = stray[0]
                chk.violation(T1, '%s|result also taken from %s' % (_short(qn), rd.table), rd.loc,
                              '%s: the crates returned are also taken from a read of %s(%s) at %s that is not the read of '
                              'the relation carrying the meaning of the query (%s keyed on %s): two relations answer one '
                              'question, and they differ as soon as one of them is stale' % (
                                  inst, rd.table, ','.join(rd.columns), rd.loc, role['table'], role['key']))
            elif ok:
                chk.ok(T1, inst, ok[0][0].loc, detail=role['why'])
                derived[qn] = (role['table'].lower(), role['key'].lower(), (role.get('result') or '').lower())
            else:
                got = ['%s(%s) keyed by %s' % (rd.table, ','.join(rd.columns), sorted(k)) for rd, k in
                       [(r, {c.lower() for c, v in r.where.items() if _is_handle_id(v)}) for r in ip.reads]]
                chk.violation(T1, '%s|role' % _short(qn), locstr(f.node),
                              '%s: expected a read of %s keyed on %s = id() returning %s (%s); the function '
                              'reads %s' % (_short(qn), role['table'], role['key'], role.get('result'),
                                            role['why'], got or 'nothing'))
    for gen, pq, cq in ((V1 + 'engine_crate_impl', 'parent', 'children'), (V2 + 'crate_impl', 'parent', 'children')):
        a, b = derived.get(gen + '::' + pq), derived.get(gen + '::' + cq)
        inst = '%s: parent and children are converse' % _short(gen)
        if a and b and a[0] == b[0] and a[1] == b[2] and a[2] == b[1]:
            chk.ok(T1, inst, '-')
        elif a and b:
            chk.violation(T1, '%s|converse' % _short(gen), '-',
                          '%s: parent reads %s, children reads %s - not the same relation in opposite '
                          'directions' % (inst, a, b))
    for qn, role in spec['roots'].items():
        for f, ip, ret in evaluate(prog, cg, eff, qn):
            chk.analysed(f)
            ok = False
            good = []
            for rd in ip.reads:
                if role['table'].lower() not in _tables_of(rd):
                    continue
                was = ok
                ok = False
                wtext = rd.stmt.text().lower()
                if 'self_parent' in role:
                    a, b = [x.lower() for x in role['self_parent']]
                    if re.search(r'%s\s*=\s*(\w+\s*\.\s*)?%s' % (a, b), wtext) or \
                            re.search(r'%s\s*=\s*(\w+\s*\.\s*)?%s' % (b, a), wtext):
                        ok = True
                else:
                    col, cname = role['const']
                    cval = _const(prog, cname)
                    if re.search(r'%s\s*=\s*%s\b' % (col.lower(), cval), wtext):
                        ok = True
                    for c, v in rd.where.items():
                        if c.lower() == col.lower() and vf._constval(v) == cval:
                            ok = True
                if ok:
                    good.append(rd)
                ok = ok or was
            inst = '%s uses the root convention of %s' % (_short(qn), role['table'])
            stray = _stray_result_reads(ip, ret, good) if ok else []
            if ok and stray:
                rd = stray[0]
                chk.violation(T1, '%s|result also taken from %s' % (_short(qn), rd.table), rd.loc,
                              '%s: the crates returned are also taken from a read of %s(%s) at %s that does not carry the '
                              'root convention (%s): a crate that is no root by the parent relation can be returned as one' % (
                                  inst, rd.table, ','.join(rd.columns), rd.loc, role.get('self_parent') or role.get('const')))
            elif ok:
                chk.ok(T1, inst, locstr(f.node))
            else:
                chk.violation(T1, '%s|root convention' % _short(qn), locstr(f.node),
                              '%s: no read of %s restricted to the root convention (%s)' % (
                                  inst, role['table'], role.get('self_parent') or role.get('const')))

    # the recursive views the 2.x queries and the cycle guard read are per-version copies of one
    # definition: all supported 2.x creators must issue the same one
    from . import c08
    c08.chain_trigger_siblings(prog, chk, T1, tables=(), views=('playlistallchildren', 'playlistallparent', 'playlistpath'))
    # ---- T2 --------------------------------------------------------------------------
    cycle_guard(prog, cg, eff, chk, T2, spec)
    cycle_guard_table(prog, cg, eff, chk, T2)

    # ---- T3 --------------------------------------------------------------------------
    _name_validation(prog, cg, eff, chk, T3)
    # ---- T4 --------------------------------------------------------------------------
    _id_immutable(prog, cg, eff, chk, T4)
    # ---- T5 --------------------------------------------------------------------------
    _sentinels(prog, cg, eff, chk, T5)
    # ---- T6 --------------------------------------------------------------------------
    position_pair(prog, cg, eff, chk, T6)
    successor_is_sibling(prog, cg, eff, chk, T6)
    T7 = chk.rule('T7', 're-parenting removes the old position of the moved crate from every relation it '
                        'inserts the new position into, on every path (also when the crate becomes a root)',
                  floor=1)
    old_position_removed(prog, cg, eff, chk, T7)
    T13 = chk.rule('T13', '1.x: every statement that selects the crates below a crate excludes the self-parent row '
                          'that marks a root (children, lookup by parent and name)', floor=1)
    self_parent_excluded(prog, cg, eff, chk, T13)
    T18 = chk.rule('T18', '2.x table level: a playlist row is stored only at a position that exists - before the statement that '
                          'writes parentListId / nextListId, add() and update() look the parent up by id and the successor '
                          'up among the playlists under that parent, and throw when either is missing (a parent no playlist '
                          'has leaves a live crate outside every listing, or - the row\'s own future id - an endless '
                          'trigger recursion; a successor that is no sibling drops rows out of children())', floor=4)
    position_exists(prog, cg, eff, chk, T18)
    T17 = chk.rule('T17', 'sibling names are unique, so that a lookup by parent and name finds exactly one crate: every '
                          'operation that gives a crate a (parent, name) pair - create root / sub crate, rename, re-parent - '
                          'runs on a table that declares UNIQUE (title, parent) in every version, or looks the pair up '
                          'before its first write and throws when it is taken', floor=9)
    sibling_names_unique(prog, cg, eff, chk, T17)
    T16 = chk.rule('T16', 'the id of a removed crate is never handed out again (ids never collide; a removed crate is never '
                          'returned by a later query): each statement that creates a crate row either leaves the id to an '
                          'AUTOINCREMENT column in every version it runs on, or does not compute it from the ids currently '
                          'stored', floor=4)
    ids_never_reused(prog, cg, eff, chk, T16)
    T15 = chk.rule('T15', 'the text that is validated is the text that is stored: no std::string reaches a statement as a '
                          'C string (data() / c_str()), which ends at the first NUL byte while the name validator and the '
                          'path builder see the whole string', floor=40)
    whole_string_binds(prog, eff, chk, T15)
    T14 = chk.rule('T14', 'an operation that hangs new rows on a crate (create_sub_crate, create_sub_crate_after, add_track, set_parent) '
                          'establishes before its first write that the row of its own crate still exists and throws '
                          'otherwise: a handle to a removed crate must not produce a crate whose parent() is not live',
                   floor=10)
    for qn in (V1 + 'engine_crate_impl::create_sub_crate', V2 + 'crate_impl::create_sub_crate',
               V1 + 'engine_crate_impl::create_sub_crate_after', V2 + 'crate_impl::create_sub_crate_after',
               V1 + 'engine_crate_impl::add_track', V2 + 'crate_impl::add_track',
               V1 + 'engine_crate_impl::set_parent', V2 + 'crate_impl::set_parent'):
        liveness_guard(prog, cg, eff, chk, T14, qn, ('crate', 'list', 'playlist'), 'own',
                       'a handle to a removed crate is accepted: the rows written name a crate that is not live '
                       '(a sub-crate in no listing whose parent() is invalid; a membership of a crate that does not exist)')
    T12 = chk.rule('T12', 'set_parent refuses a parent handle whose crate has been removed (the parent of a live crate '
                          'is absent or live)', floor=2)
    parent_is_live(prog, cg, eff, chk, T12)
    T11 = chk.rule('T11', '2.x children() / root_crates() list the siblings by walking the successor chain: the triggers that '
                          'splice it on insert and delete exist in every supported 2.x DDL and equal their sibling copies '
                          '/ the reference dump; a multi-statement move runs under a transaction guard that begins, commits '
                          'and rolls back (a failed move must not leave the forest half changed, nor the connection inside '
                          'an open transaction)', floor=30)
    from . import c09 as _c09, c14 as _c14
    from . import c08 as _c08b
    _c09.splice_triggers_present(prog, chk, T11)
    _c08b.chain_trigger_siblings(prog, chk, T11, tables=('playlist',))
    _c14._guard_shape(prog, eff, chk, T11)
    T10 = chk.rule('T10', 'remove_crate removes the whole subtree of the crate, so that no live crate keeps a removed '
                          'parent', floor=2)
    subtree_removed(prog, cg, eff, chk, T10)
    T19 = chk.rule('T19', 'every structural query answers from the database: handle, implementation, table and context classes '
                          'hold no remembered ids or rows (a set of known ids is not told about rows a trigger deletes, so a '
                          'removed crate stays valid) - rule N1 of C10', floor=10)
    from . import c10 as _c10s
    _c10s.handles_stateless(prog, chk, T19)
    T9 = chk.rule('T9', 'the tables that carry the crate forest are created as the reference dump of the version '
                        'defines them - in particular the id column of the 2.x Playlist table is AUTOINCREMENT, so '
                        'the id of a removed crate is never handed out again', floor=20)
    from . import c08 as _c08
    _c08.tables_match_reference(prog, chk, T9, ('Playlist', 'Crate', 'CrateParentList', 'CrateHierarchy', 'List',
                                                'ListParentList', 'ListHierarchy'))
    T8 = chk.rule('T8', '1.x: every operation that adds or moves a crate writes the parent list and the full '
                        'closure (ancestors of the parent x crate), which descendants() and the cycle guard read',
                  floor=5)
    from . import c11
    c11.forest_encodings(prog, cg, eff, chk, T8, only=('root', 'sub', 'move'), paths=False)
    moved_subtree_closure(prog, cg, eff, chk, T8)
    return chk.finish('value-flow interpretation of the structural crate queries and mutators of both '
                      'implementations down to the parsed SQL (tables, key columns bound to the handle id, '
                      'returned columns, event order of reads / validator calls / throws / writes)')


def subtree_removed(prog, cg, eff, chk, T10):
    """After remove_crate(c) no live crate may keep a removed parent: the whole subtree of c has to
    go.  Decided from the statements remove_crate reaches and the DELETE triggers of every
    supported version: either the C++ deletes the rows of the closure relation's descendants
    itself, or a trigger on the crate table deletes the child rows *and* triggers recurse (the
    connection sets PRAGMA recursive_triggers; SQLite's default is off, so a trigger's own DELETE
    does not fire it again)."""
    from . import c13
    order = rowrules.enum_order(prog)
    supported = [en for en in order if en in set(c13._supported(prog))]
    cats = rowrules.version_catalogs(prog)
    recursive_on = False
    for f in prog.functions.values():
        if f.body is None or f.is_pattern or not prog.in_repo(f.file):
            continue
        for s_ in sites_mod.find_sites(f):      # the statement text is all that is looked at: no parse needed
            if 'recursive_triggers' in s_.text.lower():
                recursive_on = True
    for gen, qn, closure in (('v1', V1 + 'engine_database_impl::remove_crate', ('cratehierarchy', 'listhierarchy')),
                             ('v2', V2 + 'database_impl::remove_crate', ('playlistallchildren',))):
        for f, ip, ret in evaluate(prog, cg, eff, qn):
            chk.analysed(f)
            dels = [w for w in ip.writes if w.kind == 'delete']
            if not dels:
                chk.unknown(T10, _short(qn), 'no DELETE reached from remove_crate')
                continue
            tables = sorted({(w.table or '').lower() for w in dels})
            explicit = any(any(x[0] == 'loc' and (x[1] or '').lower() in closure for v in (w.where or {}).values()
                               for x in vf.leaves(v)) for w in dels) or \
                any((rd.table or '').lower() in closure for rd in ip.reads)
            vs = [en for en in supported if rowrules._gen2(en) == (gen == 'v2')]
            child_trig = {}
            for en in vs:
                hit = False
                for cat in cats[en].values():
                    for t in cat.triggers.values():
                        if (t.event or '').upper() != 'DELETE' or (t.table or '').lower() not in tables:
                            continue
                        for b in (t.body or []):
                            if b.kind == 'delete' and b.where is not None and \
                                    re.search(r'parent\w*\s*=\s*old\s*\.\s*id', b.where.text().lower()):
                                hit = True
                child_trig[en] = hit
            inst = '%s: the subtree of the removed crate is removed with it' % _short(qn)
            if explicit:
                chk.ok(T10, inst + ' (remove_crate reads the closure relation and deletes the descendants)', dels[0].loc)
                continue
            none = [en for en, h in child_trig.items() if not h]
            if none:
                chk.violation(T10, '%s|sub-crates survive' % _short(qn), dels[0].loc,
                              '%s: not so - remove_crate deletes the row of the crate only (%s) and in %d schema '
                              'version(s) (%s ...) no DELETE trigger removes the rows whose parent it was: the '
                              'sub-crates stay in crates() with a parent() that is no longer valid' % (
                                  inst, ', '.join(tables), len(none), ', '.join(none[:3])))
            elif not recursive_on:
                chk.violation(T10, '%s|grandchildren survive' % _short(qn), dels[0].loc,
                              '%s: not so - the DELETE trigger removes the direct children, but triggers do not '
                              'recurse (no connection sets PRAGMA recursive_triggers, SQLite\'s default is off) and '
                              'remove_crate does not delete the descendants itself: crates two or more levels '
                              'below stay in crates() with a parent() that is no longer valid' % inst)
            else:
                chk.ok(T10, inst + ' (child-deleting trigger with recursive triggers on)', dels[0].loc)


def _call_names(t, out=None, seen=None, depth=0):
    if out is None:
        out, seen = set(), set()
    if not isinstance(t, tuple) or id(t) in seen or depth > 30:
        return out
    seen.add(id(t))
    if t and t[0] in ('call', 'callm') and isinstance(t[1], str):
        out.add(t[1].split('::')[-1])
    for x in t[1:]:
        if isinstance(x, tuple):
            _call_names(x, out, seen, depth + 1)
            for y in x:
                if isinstance(y, tuple):
                    _call_names(y, out, seen, depth + 1)
    return out


def parent_is_live(prog, cg, eff, chk, T12):
    """parent() of every live crate is absent or a live crate: set_parent must refuse a parent handle
    whose crate has been removed.  Decided on the value flow of set_parent: before its first write it
    reads the crate table keyed by the *argument's* id and a throw depends on that read."""
    for qn in (V1 + 'engine_crate_impl::set_parent', V2 + 'crate_impl::set_parent'):
        for f, ip, ret in evaluate(prog, cg, eff, qn):
            chk.analysed(f)
            first_write = min([w.seq for w in ip.writes] or [10 ** 9])
            probes = []
            for rd in ip.reads:
                if rd.seq > first_write:
                    continue
                if not (set(_tables_of(rd)) & {'crate', 'list', 'playlist'}):
                    continue
                keyed = [c for c, v in (rd.where or {}).items()
                         if c.lower() == 'id' and any(x[0] == 'in' for x in vf.leaves(v))]
                if keyed:
                    probes.append(rd)
            guarded = False
            for (seq, ty, node, fn, conds) in ip.throws:
                if seq > first_write:
                    continue
                # the path condition of the throw is the conjunction of its conditions
                all_in = any(x[0] == 'in' for c in conds for x in vf.leaves(c))
                for c in conds:
                    lv = list(vf.leaves(c))
                    if any(x[0] == 'loc' and (x[1] or '').lower() in ('crate', 'list', 'playlist') for x in lv) and \
                            any(x[0] == 'in' for x in lv):
                        guarded = True
                    # `parent->is_valid()`: a call on the argument of a method that is an existence test
                    # of a crate row (whatever it is called): every definition of that name in the crate
                    # impl classes counts / selects the crate table keyed by id
                    if all_in:
                        for nm in _call_names(c):
                            defs = [g for g in prog.functions.values() if g.body is not None and g.name == nm
                                    and g.cls and g.cls.endswith('crate_impl')]
                            if defs and all(any(st.stored_in is not None and st.stored_in.kind == 'select' and
                                                (st.stored_in.table or '').lower() in ('crate', 'list', 'playlist') and
                                                st.stored_in.where is not None and
                                                re.search(r'\bid\s*=\s*\?', st.stored_in.where.text().lower())
                                                for h in cg.reachable([g]).values() for st in eff.sites(h[0]))
                                            for g in defs):
                                guarded = True
                                probes = probes or [rd for rd in ip.reads if rd.seq < seq]
            inst = '%s: existence of the new parent tested before the first write' % _short(qn)
            if probes and guarded:
                chk.ok(T12, inst, probes[0].loc)
            else:
                chk.violation(T12, '%s|stale parent accepted' % _short(qn), locstr(f.node),
                              '%s: not so (%s) - a handle to a crate that has been removed is accepted as the new '
                              'parent: the moved crate stays in crates() with a parent() that is not a live crate '
                              'and is in no children() / root_crates() listing' % (
                                  inst, 'no read of the crate table keyed by the argument\'s id' if not probes
                                  else 'no throw depends on that read'))


_TITLE_LOOKUPS = {}


def _is_title_lookup(prog, cg, eff, name):
    """Every repository definition called `name` reaches a SELECT on the crate table with `title = ?`."""
    if name in _TITLE_LOOKUPS:
        return _TITLE_LOOKUPS[name]
    defs = [g for g in prog.functions.values() if g.body is not None and g.name == name and prog.in_repo(g.file)
            and not g.is_pattern]
    ok = bool(defs)
    for g in defs:
        hit = False
        for h in cg.reachable([g], stop=lambda x: not prog.in_repo(x.file)).values():
            for st in eff.sites(h[0]) if h[0].body is not None else ():
                si = st.stored_in
                if si is not None and si.kind == 'select' and si.where is not None and \
                        re.search(r'\btitle\s*=\s*\?', si.where.text().lower()) and \
                        any(t.lower() in ('crate', 'list', 'playlist') for (_, t, _) in (si.tables or [])):
                    hit = True
        ok = ok and hit
    _TITLE_LOOKUPS[name] = ok
    return ok


def sibling_names_unique(prog, cg, eff, chk, rid):
    cats = rowrules.version_catalogs(prog)
    ops = ((V1 + 'engine_database_impl::create_root_crate', 'arg'), (V1 + 'engine_crate_impl::create_sub_crate', 'arg'),
           (V1 + 'engine_crate_impl::set_name', 'arg'), (V1 + 'engine_crate_impl::set_parent', 'stored'),
           (V2 + 'database_impl::create_root_crate', 'arg'), (V2 + 'crate_impl::create_sub_crate', 'arg'),
           (V2 + 'crate_impl::create_sub_crate_after', 'arg'), (V2 + 'crate_impl::set_name', 'arg'),
           (V2 + 'crate_impl::set_parent', 'stored'))
    for qn, subject in ops:
        gen2 = qn.startswith(V2)
        for f, ip, ret in evaluate(prog, cg, eff, qn):
            chk.analysed(f)
            tables = sorted({(w.table or '') for w in ip.writes
                             if (w.table or '').lower() in ('crate', 'list', 'playlist')})
            inst = '%s: (parent, name) pair unique' % _short(qn)
            # (a) declared in the DDL of every version of the generation that has the table
            declared, missing = [], []
            for en, c in sorted(cats.items()):
                if rowrules._gen2(en) != gen2:
                    continue
                for t in tables or (['Playlist'] if gen2 else ['Crate']):
                    r = rowrules.lookup_table(c, t)
                    if r is None or r[0] != 'table':
                        missing.append(en)
                        continue
                    uniq = [set(x.lower() for x in cols) for kind, cols in r[1].constraint_order if kind == 'unique']
                    if any('title' in u and len(u) == 2 and any('parent' in x for x in u) for u in uniq):
                        declared.append(en)
                    else:
                        missing.append(en)
            if declared and not missing:
                chk.ok(rid, inst + ' by UNIQUE (title, parent) in the DDL of %d version(s)' % len(declared), locstr(f.node))
                continue
            # (b) looked up before the first write, and a throw depends on the look-up
            first_write = min([w.seq for w in ip.writes] or [10 ** 9])

            def is_subject(v):
                sub = list(vf.leaves(v)) + [y for y in _flat(v) if isinstance(y, tuple) and y and y[0] in ('in', 'loc')]
                if subject == 'arg':
                    return any(x[0] == 'in' for x in sub)
                return any(x[0] == 'loc' and len(x) > 2 and (x[1] or '').lower() in ('crate', 'list', 'playlist') and
                           (x[2] or '').lower() == 'title' for x in sub)
            probes = [rd for rd in ip.reads if rd.seq < first_write and set(_tables_of(rd)) & {'crate', 'list', 'playlist'}
                      and any(c.lower() == 'title' and is_subject(v) for c, v in (rd.where or {}).items())]
            dependent = None
            for (seq, ty, node, fn, conds) in ip.throws:
                if seq >= first_write:
                    continue
                for c in conds:
                    for x in _flat(c):
                        if x[0] in ('call', 'callm') and isinstance(x[1], str) and is_subject(x) and \
                                _is_title_lookup(prog, cg, eff, x[1].split('::')[-1]):
                            dependent = (seq, ty, x[1].split('::')[-1])
            if probes and not dependent:
                # the look-up written as a statement of its own: the throw that follows the probing read, before any
                # other read, tests its result
                for rd in probes:
                    later = sorted([r.seq for r in ip.reads if r.seq > rd.seq] + [first_write])
                    for (seq, ty, node, fn, conds) in ip.throws:
                        if rd.seq < seq < later[0] and any(
                                (x[0] == 'op' and isinstance(x[1], str) and x[1].startswith('sql:')) or
                                (x[0] == 'loc' and (x[1] or '').lower() in ('crate', 'list', 'playlist'))
                                for c in conds for x in _flat(c)):
                            dependent = (seq, ty, 'a statement of its own')
            if probes and dependent:
                chk.ok(rid, inst + ': looked up through %s before the first write, throws %s' % (
                    dependent[2], dependent[1].split('::')[-1]), probes[0].loc)
            else:
                chk.violation(rid, '%s|duplicate sibling name accepted' % _short(qn), locstr(f.node),
                              '%s: not so - the table declares no UNIQUE (title, parent) in %s and %s: two siblings can '
                              'carry one name, and root_crate_by_name / sub_crate_by_name then return one of them' % (
                                  inst, ', '.join(missing[:4]) + (' ...' if len(missing) > 4 else ''),
                                  'nothing looks the new pair up before the first write' if not probes
                                  else 'no throw depends on the look-up'))


def ids_never_reused(prog, cg, eff, chk, rid, what='crate'):
    cats = rowrules.version_catalogs(prog)
    n = 0
    if what == 'crate':
        ops = (V1 + 'engine_database_impl::create_root_crate', V1 + 'engine_crate_impl::create_sub_crate',
               V2 + 'database_impl::create_root_crate', V2 + 'crate_impl::create_sub_crate',
               V2 + 'crate_impl::create_sub_crate_after')
        tabs = ('crate', 'list', 'playlist')
    else:
        ops = (V1 + 'create_track', V2 + 'create_track')
        tabs = ('track',)
    for qn in ops:
        gen2 = qn.startswith(V2)
        for f, ip, ret in evaluate(prog, cg, eff, qn):
            chk.analysed(f)
            by_site = {}
            site_func = {}
            for w in ip.writes:
                if w.kind == 'insert' and (w.table or '').lower() in tabs:
                    by_site.setdefault((w.loc, w.table), {})[(w.column or '').lower()] = w.value
                    site_func[(w.loc, w.table)] = w.func
            if not by_site:
                raise AnalysisBroken('%s reaches no insert into the %s table' % (qn, what))
            for (loc, table), cols in sorted(by_site.items()):
                n += 1
                inst = '%s: INSERT INTO %s at %s' % (_short(qn), table, loc)
                if 'id' in cols:
                    sub = _flat(cols['id'])
                    from_max = [x for x in sub if x[0] == 'op' and isinstance(x[1], str) and x[1].startswith('sql:')
                                and 'MAX' in x[1].upper()]
                    if from_max:
                        chk.violation(rid, '%s|id = MAX(id) + 1' % _short(qn), loc,
                                      '%s takes the new id from %s: when the %s with the highest id has been removed, '
                                      'its id is given to the next one created - a look-up by the removed id finds '
                                      'a row again and a handle to the removed %s becomes valid, now naming another '
                                      'one' % (inst, from_max[0][1][4:].strip(), what, what))
                    else:
                        chk.unknown(rid, inst, 'the id is supplied from %s: not judged' % vf.shape(cols['id'])[:60])
                    continue
                bad = []
                seen_table = False
                # the versions this statement runs on: the schema guards around it
                from .. import rowmap as _rowmap
                order = rowrules.enum_order(prog)
                lo_g, hi_g = 0, len(order) - 1
                wf = site_func.get((loc, table))
                if wf is not None:
                    for st_ in eff.sites(wf):
                        if locstr(st_.node) == loc:
                            lo_g, hi_g = _rowmap.schema_guard(wf, st_.node, order)
                for en, c in sorted(cats.items()):
                    if rowrules._gen2(en) != gen2:
                        continue
                    if en in order and not (lo_g <= order.index(en) <= hi_g):
                        continue
                    r = rowrules.lookup_table(c, table)
                    if r is None or r[0] != 'table':
                        continue
                    seen_table = True
                    idc = [x for x in r[1].columns if x.name.lower() == 'id']
                    if not idc or not getattr(idc[0], 'pk_autoinc', False):
                        bad.append(en)
                if not seen_table:
                    chk.unknown(rid, inst, 'no version of this generation has a table %s' % table)
                elif bad:
                    chk.violation(rid, '%s|rowid without AUTOINCREMENT' % _short(qn), loc,
                                  '%s leaves the id to SQLite, and in %s the id column of %s is a plain INTEGER PRIMARY KEY: '
                                  'SQLite hands out max(rowid) + 1, so the id of a removed last %s is reused' % (
                                      inst, ', '.join(bad), table, what))
                else:
                    chk.ok(rid, inst + ': id assigned by an AUTOINCREMENT column in every version that has the table', loc)
    return n


def whole_string_binds(prog, eff, chk, rid):
    n = 0
    for f in sorted(prog.functions.values(), key=lambda x: (x.file or '', x.line)):
        if f.body is None or f.is_pattern or not prog.in_repo(f.file):
            continue
        for s_ in sites_mod.find_sites(f):      # only the bound expressions are looked at: no parse needed
            for b in s_.binds:
                e = strip(b, explicit=True)
                t = (e.get('dtype') or e.get('type') or '')
                stringish = 'basic_string' in t or 'std::string' in t or t.replace('const ', '').strip() in ('char *', 'string') \
                    or 'char [' in t or 'string_view' in t
                if not stringish:
                    continue
                n += 1
                inst = '%s: text bind at %s' % (_short(f.qualname), locstr(b))
                if e.get('kind') == 'CXXMemberCallExpr' and strip(children(e)[0]).get('name') in ('data', 'c_str'):
                    recv = children(strip(children(e)[0]))
                    rt = (strip(recv[0]).get('dtype') or strip(recv[0]).get('type') or '') if recv else ''
                    if 'string' in rt:
                        chk.analysed(f)
                        chk.violation(rid, '%s|%s bound as C string' % (_short(f.qualname),
                                                                       (guards_canon(recv[0]) or '?').split(':')[-1]),
                                      locstr(b),
                                      '%s binds %s.%s(): the statement receives the characters up to the first NUL byte, '
                                      'not the string the function validated - a name beginning with a NUL byte passes '
                                      'the validator and is stored as the empty name, "A\\0B" is stored as "A" while '
                                      'the path column gets the whole string' % (
                                          inst, (guards_canon(recv[0]) or '?').split(':')[-1],
                                          strip(children(e)[0]).get('name')))
                        continue
                chk.ok(rid, inst, locstr(b))
    return n


def guards_canon(n):
    from .. import guards
    return guards.canon(n)


def liveness_guard(prog, cg, eff, chk, rid, qn, tables, subject, consequence):
    """Before its first write, every definition of qn reads one of `tables` keyed (column id) by the
    subject - 'own': the id() of the handle, 'arg': a value derived from a parameter - and a throw that
    follows that read, with no other read or write in between or inside a call of an existence test, depends
    on it.  Decided on the value flow (sa/valueflow.py), callees inlined down to the statements."""
    def is_subject(v):
        has_in = any(x[0] == 'in' for x in vf.leaves(v))
        if subject == 'own':
            return any(x == ('id',) for x in _flat(v)) and not has_in
        return has_in
    for f, ip, ret in evaluate(prog, cg, eff, qn):
        chk.analysed(f)
        first_write = min([w.seq for w in ip.writes] or [10 ** 9])
        inst = '%s %s: existence of %s tested before the first write' % (
            _short(qn), (f.type or '')[:40], 'its own row' if subject == 'own' else 'the row its argument names')
        probes = []
        for rd in ip.reads:
            if rd.seq >= first_write or not (set(_tables_of(rd)) & set(tables)):
                continue
            if any(c.lower() == 'id' and is_subject(v) for c, v in (rd.where or {}).items()):
                probes.append(rd)
        ok = None
        for rd in probes:
            later = sorted([r.seq for r in ip.reads if r.seq > rd.seq] + [first_write])
            horizon = later[0]
            for (seq, ty, node, fn, conds) in ip.throws:
                if not (rd.seq < seq < first_write):
                    continue
                dep = False
                for c in conds:
                    if seq >= horizon:
                        continue
                    sub = _flat(c)
                    if any(x[0] == 'loc' and (x[1] or '').lower() in tables for x in vf.leaves(c)):
                        dep = True       # a value fetched from the probed table
                    if any(x[0] == 'op' and isinstance(x[1], str) and x[1].startswith('sql:') for x in sub):
                        dep = True       # the result of the probing statement (COUNT(*))
                    has_in = any(x[0] == 'in' for x in vf.leaves(c))
                    if any(x[0] in ('call', 'callm') for x in sub) and has_in == (subject != 'own'):
                        dep = True       # !exists(id) / !is_valid(): the call the read was made in
                if dep:
                    ok = (rd, seq, ty)
                    break
            if ok:
                break
        if ok:
            chk.ok(rid, inst + ' (throws %s)' % ok[2].split('::')[-1], ok[0].loc)
        else:
            chk.violation(rid, '%s|%s|%s row not tested' % (_short(qn), (f.type or '').split('(')[-1].rstrip(')')[:30],
                                                            'own' if subject == 'own' else 'argument'),
                          locstr(f.node),
                          '%s: not so (%s) - %s' % (inst, 'no read of %s keyed by it' % '/'.join(tables) if not probes
                                                    else 'no throw depends on that read', consequence))


def moved_subtree_closure(prog, cg, eff, chk, T8):
    """1.x: the closure table lists every (ancestor, descendant) pair.  Re-parenting a crate changes
    the ancestors of the crate *and of all its descendants*: set_parent must rewrite the closure
    rows whose crateIdChild is a descendant of the moved crate, i.e. issue writes on the closure table
    keyed by values it read from the closure relation of id()."""
    qn = V1 + 'engine_crate_impl::set_parent'
    for f, ip, ret in evaluate(prog, cg, eff, qn):
        chk.analysed(f)
        hw = [w for w in ip.writes if (w.table or '').lower() in ('cratehierarchy', 'listhierarchy')]
        if not hw:
            chk.unknown(T8, _short(qn) + ' closure', 'no write on the closure table reached')
            continue
        sub = [w for w in hw if any(any(x[0] == 'loc' and (x[1] or '').lower() in ('cratehierarchy', 'listhierarchy')
                                        for x in vf.leaves(v)) for v in list((w.where or {}).values()) + [w.value])
               and not all(_is_handle_id(v) for v in (w.where or {}).values())]
        inst = '%s: the closure rows of the moved crate\'s descendants are rewritten' % _short(qn)
        if sub:
            chk.ok(T8, inst, sub[0].loc)
        else:
            chk.violation(T8, '%s|descendants keep their old ancestors' % _short(qn), hw[0].loc,
                          '%s: not so - set_parent deletes and inserts only the rows whose crateIdChild is the moved '
                          'crate itself: its sub-crates stay descendants of the old ancestors and do not become '
                          'descendants of the new ones, so descendants() is wrong and the cycle guard, which reads '
                          'this table, accepts a parent that is in fact a descendant' % inst)


def self_parent_excluded(prog, cg, eff, chk, T13):
    """1.x marks a root crate by a CrateParentList row whose parent is the crate itself.  Every
    statement that selects the rows *below* a crate (crateParentId bound to a value) must therefore
    exclude that row (crateOriginId <> crateParentId), or a root is listed / found as its own child."""
    n = 0
    for f in prog.functions.values():
        if f.body is None or f.is_pattern or '::v1::' not in (f.qualname or '') or '/schema/' in (f.file or ''):
            continue
        for st_ in eff.sites(f):
            st = st_.stored_in
            if st is None or st.kind != 'select':
                continue
            txt = ' '.join(st.text().lower().split())
            if 'crateparentlist' not in txt:
                continue
            if not re.search(r'(\w+\s*\.\s*)?crateparentid\s*(=|==|is)\s*\?', txt) and \
                    not re.search(r'\?\s*(=|==|is)\s*(\w+\s*\.\s*)?crateparentid', txt):
                continue
            n += 1
            excl = re.search(r'(\w+\s*\.\s*)?crateoriginid\s*(<>|!=|is\s+not)\s*(\w+\s*\.\s*)?crateparentid', txt) or \
                re.search(r'(\w+\s*\.\s*)?crateparentid\s*(<>|!=|is\s+not)\s*(\w+\s*\.\s*)?crateoriginid', txt)
            inst = '%s: rows below a crate selected with the self-parent row excluded' % _short(f.qualname)
            if excl:
                chk.ok(T13, inst, locstr(st_.node))
            else:
                chk.violation(T13, '%s|self-parent row not excluded' % _short(f.qualname), locstr(st_.node),
                              '%s: not so - the statement selects CrateParentList rows by crateParentId = ? without '
                              'crateOriginId <> crateParentId: for a root crate the row that marks it as a root '
                              'matches, so the crate is returned as a sub-crate of itself' % inst)
    if n < 1:
        # children() and the lookup by parent and name each carry such a statement today; when one is written
        # on top of the other a single statement remains, and the rule stays meaningful for it
        chk.fail_broken('T13: no statement selects CrateParentList rows by parent (anchors lost)')


def cycle_guard(prog, cg, eff, chk, T2, spec=None):
    if spec is None:
        spec = json.load(open(SPEC))
    for qn, role in spec['closure'].items():
        for f, ip, ret in evaluate(prog, cg, eff, qn):
            chk.analysed(f)
            first_write = min([w.seq for w in ip.writes] or [10 ** 9])
            cl = [rd for rd in ip.reads if role['table'].lower() in _tables_of(rd)
                  and any(c.lower() == role['key'].lower() and _is_handle_id(v) for c, v in rd.where.items())
                  and rd.seq < first_write]
            guarded = False
            for (seq, ty, node, fn, conds) in ip.throws:
                if seq > first_write:
                    continue
                for c in conds:
                    if any(x[0] == 'loc' and x[1].lower() == role['table'].lower() for x in vf.leaves(c)):
                        guarded = True
            inst = '%s: closure query on %s before the first write, with a dependent throw' % (_short(qn), role['table'])
            if cl and guarded:
                chk.ok(T2, inst, cl[0].loc)
            else:
                chk.violation(T2, '%s|no cycle guard' % _short(qn), locstr(f.node),
                              '%s: %s; a parent that is a descendant of the crate is accepted and the forest '
                              'becomes cyclic (2.x: the recursive views then never terminate)' % (
                                  _short(qn), 'no read of %s keyed on id() precedes the first write' % role['table']
                                  if not cl else 'no throw depends on the closure query'))


def position_exists(prog, cg, eff, chk, rid):
    for name in ('add', 'update'):
        qn = V2 + 'playlist_table::' + name
        for f, ip, ret in evaluate(prog, cg, eff, qn):
            chk.analysed(f)
            pos_writes = [w.seq for w in ip.writes if (w.table or '').lower() == 'playlist'
                          and (w.column or '') in ('parentlistid', 'nextlistid')]
            if not pos_writes:
                raise AnalysisBroken('T18: %s writes neither parentListId nor nextListId' % qn)
            fw = min(pos_writes)

            def from_field(v, fld):
                return any(x[0] == 'in' and len(x) > 2 and x[2] == fld for x in vf.leaves(v))

            def dependent_throw(rd):
                later = sorted([r.seq for r in ip.reads if r.seq > rd.seq] + [fw])
                for (seq, ty, node, fn, conds) in ip.throws:
                    if not (rd.seq < seq < later[0]):
                        continue
                    for c in conds:
                        sub = _flat(c)
                        if any(x[0] == 'op' and isinstance(x[1], str) and x[1].startswith('sql:') for x in sub):
                            return True         # the result of the probing statement
                        if any(x[0] == 'loc' and (x[1] or '').lower() == 'playlist' for x in vf.leaves(c)):
                            return True         # a value fetched by it
                        if any(x[0] in ('call', 'callm') for x in sub) and any(x[0] == 'in' for x in sub):
                            return True         # !exists(row.parent_list_id): the call the read was made in
                return False
            reads = [rd for rd in ip.reads if rd.seq < fw and 'playlist' in _tables_of(rd)]
            parent_ok = any(from_field((rd.where or {}).get('id'), 'parent_list_id') and dependent_throw(rd) for rd in reads)
            next_ok = any(from_field((rd.where or {}).get('parentlistid'), 'parent_list_id') and
                          'id' in {c.lower() for c in (rd.where or {})} and dependent_throw(rd) for rd in reads)
            for what, ok, why in (('parent', parent_ok, 'a parent_list_id that no playlist has is stored: the new crate is live, in '
                                   'crates(), and in no root_crates() / children() listing; with the id the row is about to '
                                   'get it is its own parent and the isPersist trigger never returns'),
                                  ('successor', next_ok, 'a next_list_id that is not a playlist under the same parent is stored: '
                                   'the row, and every sibling chained behind it, drops out of children()')):
                inst = '%s: %s looked up before the position is written, with a dependent throw' % (_short(qn), what)
                if ok:
                    chk.ok(rid, inst, locstr(f.node))
                else:
                    chk.violation(rid, '%s|%s not looked up' % (_short(qn), what), locstr(f.node),
                                  '%s: not so - %s' % (inst, why))


def cycle_guard_table(prog, cg, eff, chk, rid):
    """The same guard one level down: v2::playlist_table::update is public, and a row whose parent is one of
    its own descendants makes the recursive views (and the isPersist triggers that read them) run forever.
    Before its first write, update() reads the closure view keyed by the id of the row it was given, and a
    throw depends on what it read."""
    qn = V2 + 'playlist_table::update'
    for f, ip, ret in evaluate(prog, cg, eff, qn):
        chk.analysed(f)
        # the branch that re-parents: its first statement is the detaching UPDATE of nextListId, which no other
        # branch issues; the plain UPDATE of the unchanged position lies on another path
        moving = [w.seq for w in ip.writes if (w.column or '') == 'parentlistid']
        if not moving:
            raise AnalysisBroken('playlist_table::update writes no parentListId')
        first_write = min([w.seq for w in ip.writes if (w.column or '') == 'nextlistid'] + moving)
        cl = [rd for rd in ip.reads if 'playlistallchildren' in _tables_of(rd) and rd.seq < first_write
              and any(c.lower() == 'id' and any(x[0] == 'in' for x in vf.leaves(v)) for c, v in (rd.where or {}).items())]
        guarded = False
        for (seq, ty, node, fn, conds) in ip.throws:
            if seq > first_write:
                continue
            for c in conds:
                if any(x[0] == 'loc' and (x[1] or '').lower() == 'playlistallchildren' for x in vf.leaves(c)):
                    guarded = True
        inst = '%s: closure query keyed by the row id before the first write, with a dependent throw' % _short(qn)
        if cl and guarded:
            chk.ok(rid, inst, cl[0].loc)
        else:
            chk.violation(rid, '%s|no cycle guard' % _short(qn), locstr(f.node),
                          '%s: not so (%s) - a row whose parent_list_id is one of its own descendants is written; with '
                          'is_persisted set the isPersistParent trigger then recurses through PlaylistAllParent without '
                          'end and the call never returns, otherwise the cycle is stored and the next descendant_ids() '
                          'hangs' % (inst, 'no read of PlaylistAllChildren keyed by the row id precedes the first write'
                                     if not cl else 'no throw depends on the closure query'))


def _const(prog, name):
    for q, v in prog.consts.items():
        if q.endswith('::' + name):
            return v
    raise AnalysisBroken('constant %s not found' % name)


def position_pair(prog, cg, eff, chk, rid):
    for qn in (V2 + 'crate_impl::set_parent',):
        for f, ip, ret in evaluate(prog, cg, eff, qn):
            chk.analysed(f)
            par = [w for w in ip.writes if (w.table or '').lower() == 'playlist' and w.column == 'parentlistid'
                   and any(x[0] == 'in' for x in vf.leaves(w.value))]
            nxt = [w for w in ip.writes if (w.table or '').lower() == 'playlist' and w.column == 'nextlistid'
                   and w.loc in {p.loc for p in par}]
            inst = '%s: parentListId written from the argument, nextListId re-assigned in the same statement' % _short(qn)
            if not par:
                chk.unknown(rid, _short(qn), 'no write of Playlist.parentListId from the argument found')
                continue
            fresh = False
            for w in nxt:
                alts = _alternatives(w.value)
                # ('const','nullopt') is the empty-optional arm of the row lookup, not a position
                if any((a[0] == 'const' and a[1] != 'nullopt') or
                       any(x[0] == 'in' for x in vf.leaves(a)) for a in alts):
                    fresh = True
            if fresh:
                chk.ok(rid, inst, par[0].loc)
            else:
                chk.violation(rid, '%s|stale successor' % _short(qn), par[0].loc,
                              '%s changes parentListId but stores the nextListId it read from the old position: '
                              'under the new parent that successor is not a sibling, and the moved crate drops out '
                              'of children() unless it was the last sibling' % _short(qn))


def _alternatives(t, out=None, seen=None, depth=0):
    if out is None:
        out, seen = [], set()
    if t is None or id(t) in seen or depth > 40:
        return out
    seen.add(id(t))
    k = t[0]
    if k == 'phi':
        for a in t[1]:
            _alternatives(a, out, seen, depth + 1)
    elif k == 'ite':
        _alternatives(t[2], out, seen, depth + 1)
        _alternatives(t[3], out, seen, depth + 1)
    elif k in ('call', 'callm') and t[3] is not None:
        _alternatives(t[3], out, seen, depth + 1)
    else:
        out.append(t)
    return out


def _name_validation(prog, cg, eff, chk, T3):
    entries = [
        (V1 + 'engine_database_impl::create_root_crate', 'name'),
        (V1 + 'engine_crate_impl::create_sub_crate', 'name'),
        (V1 + 'engine_crate_impl::set_name', 'name'),
        (V2 + 'database_impl::create_root_crate', 'name'),
        (V2 + 'database_impl::create_root_crate_after', 'name'),
        (V2 + 'crate_impl::create_sub_crate', 'name'),
        (V2 + 'crate_impl::create_sub_crate_after', 'name'),
        (V2 + 'crate_impl::set_name', 'name'),
        (V2 + 'playlist_table::add', None),
        (V2 + 'playlist_table::update', None),
    ]
    for qn, pname in entries:
        for f, ip, ret in evaluate(prog, cg, eff, qn):
            chk.analysed(f)
            first_write = min([w.seq for w in ip.writes] or [10 ** 9])
            val = []
            for (seq, ty, node, fn, conds) in ip.throws:
                if 'crate_invalid_name' not in (ty or '') or seq > first_write:
                    continue
                if any(any(x[0] == 'in' for x in vf.leaves(c)) for c in conds):
                    val.append(fn)
            inst = '%s validates the name before its first write' % _short(qn)
            if not ip.writes:
                chk.unknown(T3, _short(qn), 'no write reached: anchor lost')
            elif val:
                chk.ok(T3, inst + ' (%s)' % _short(val[0].qualname), locstr(f.node))
            else:
                chk.violation(T3, '%s|unvalidated name' % _short(qn), locstr(f.node),
                              '%s: no throw of crate_invalid_name that depends on the name precedes the first '
                              'write (%s): an empty name or one containing \';\' would be stored' % (
                                  _short(qn), ip.writes[0].loc))
    # the validator copies agree
    vals = [f for f in prog.functions.values() if f.body is not None and not f.is_pattern and
            any(x.get('kind') == 'CXXThrowExpr' and children(x) and
                'crate_invalid_name' in (strip(children(x)[0]).get('type') or '') for x in walk(f.body))
            and len(f.params) == 1]
    sigs = []
    for f in vals:
        # what the validator tests, whatever the spelling: the empty test as empty() / == "" / size() == 0 /
        # length() == 0, a forbidden character as a character literal, a one-character string handed to a
        # search (find(";")), or a named character constant
        def _zero_cmp(x):
            if x.get('kind') not in ('BinaryOperator', 'CXXOperatorCallExpr'):
                return False
            sub = list(walk(x))
            return any(y.get('kind') == 'CXXMemberCallExpr' and strip(children(y)[0]).get('name') in ('size', 'length')
                       for y in sub) and any(y.get('kind') == 'IntegerLiteral' and int(y.get('value') or 1) == 0 for y in sub)
        empty = any((x.get('kind') == 'CXXMemberCallExpr' and strip(children(x)[0]).get('name') == 'empty') or
                    (x.get('kind') == 'StringLiteral' and program.literal_value(x) == '') or _zero_cmp(x)
                    for x in walk(f.body))
        chars = {chr(int(x.get('value'))) for x in walk(f.body) if x.get('kind') == 'CharacterLiteral'}
        for x in walk(f.body):
            if x.get('kind') == 'CXXMemberCallExpr' and (strip(children(x)[0]).get('name') or '').startswith('find'):
                for a in children(x)[1:2]:
                    v = program.literal_value(strip(a, explicit=True))
                    if isinstance(v, str) and len(v) == 1:
                        chars.add(v)
            if x.get('kind') == 'DeclRefExpr' and (x.get('referencedDecl') or {}).get('kind') == 'VarDecl':
                d = f.tu.ids.get((x.get('referencedDecl') or {}).get('id'))
                if d is not None and 'char' in (d.get('type') or '') and '*' not in (d.get('type') or '') \
                        and '[' not in (d.get('type') or ''):
                    v = program.literal_value(d)
                    if isinstance(v, int) and 0 < v < 256:
                        chars.add(chr(v))
        sigs.append((f, (empty, tuple(sorted(chars)))))
    # one validator shared by every entry point is enough (the copies were factored into one): what remains
    # necessary is that each validator there is rejects the empty name and ';', and that they agree
    if len(sigs) >= 1:
        base = sigs[0][1]
        for f, sg in sigs:
            if not sg[0] and not sg[1]:
                chk.unknown(T3, _short(f.qualname), 'what this name validator tests could not be read '
                                                    '(no empty-test / character literal recognised)')
                continue
            if sg == base and sg[0] and ';' in sg[1]:
                chk.ok(T3, 'validator %s rejects the empty name and %s' % (_short(f.qualname), list(sg[1])),
                       locstr(f.node))
            else:
                chk.violation(T3, '%s|validator differs' % _short(f.qualname), locstr(f.node),
                              'crate-name validator %s tests (empty: %s, characters: %s); the others test '
                              '(empty: %s, characters: %s): the entry points do not reject the same names' % (
                                  _short(f.qualname), sg[0], list(sg[1]), base[0], list(base[1])))
    else:
        chk.fail_broken('T3: no crate-name validator found')


def _id_immutable(prog, cg, eff, chk, T4):
    n = 0
    for f in prog.functions.values():
        if f.body is None or f.is_pattern or '/schema/' in (f.file or ''):
            continue
        for s in eff.sites(f):
            st = s.stored_in
            if st is None or st.kind != 'update':
                continue
            t = (st.table or '').lower()
            n += 1
            if t in ('crate', 'list', 'playlist') and any(c.lower() == 'id' for c, _ in st.sets):
                chk.violation(T4, '%s|assigns id of %s' % (_short(f.qualname), st.table), locstr(s.node),
                              '%s assigns the id column of %s: crate ids must never change' % (_short(f.qualname), st.table))
            else:
                chk.ok(T4, '%s: UPDATE %s sets %s' % (_short(f.qualname), st.table,
                                                      ','.join(c for c, _ in st.sets)[:60]), locstr(s.node))
    # positive control: the DDL does contain a statement that assigns an id (trigger_update_Crate)
    found = False
    for f in prog.functions.values():
        if f.body is None or '/schema/' not in (f.file or ''):
            continue
        for s in sites_mod.find_sites(f):
            if 'trigger_update_Crate' in s.text and re.search(r'SET\s+id\s*=', s.text, re.I):
                found = True
        if found:
            break
    if not found:
        chk.fail_broken('T4: positive control (DDL trigger assigning List.id) not matched: the matcher is blind')


def chain_walkers(prog, cg, anchors):
    """The functions that walk a successor chain loaded into a map: the listing operations named in `anchors`
    themselves or whatever repository function they hand the map to (a file-local helper of any name, or
    none when the walk is written in place) - recognised by what they do: a loop and a find() on a map."""
    roots = [f for qn in anchors for f in prog.by_name(qn) if f.body is not None and not f.is_pattern]
    if not roots:
        raise AnalysisBroken('anchor functions %s not found' % (anchors,))
    out = []
    reach = cg.reachable(roots, stop=lambda x: not prog.in_repo(x.file))
    for key in sorted(reach, key=str):
        g = reach[key][0]
        if g.body is None or g.is_pattern or not prog.in_repo(g.file):
            continue
        has_loop = any(x.get('kind') in ('DoStmt', 'WhileStmt', 'ForStmt') for x in walk(g.body))
        has_find = False
        for x in walk(g.body):
            if x.get('kind') == 'CXXMemberCallExpr':
                callee = strip(children(x)[0])
                if callee.get('name') == 'find' and children(callee) and \
                        'map' in (strip(children(callee)[0]).get('type') or ''):
                    has_find = True
        if has_loop and has_find:
            out.append(g)
    return out


def _sentinels(prog, cg, eff, chk, T5):
    pl_none = _const(prog, 'PARENT_LIST_ID_NONE')
    nx_none = _const(prog, 'PLAYLIST_NO_NEXT_LIST_ID')
    # the root readers compare parentListId with the value of the named sentinel - written into the SQL text
    # or bound to the placeholder (the constant itself, a local alias of it, a literal)
    for qn in (V2 + 'playlist_table::root_ids', V2 + 'playlist_table::find_root_id'):
        for f, ip, ret in evaluate(prog, cg, eff, qn):
            seen = set()
            for rd in ip.reads:
                if 'playlist' not in _tables_of(rd) or rd.loc in seen:
                    continue
                m = re.search(r'parentlistid\s*(?:=|==|is)\s*(-?\d+)', rd.stmt.text().lower())
                got = int(m.group(1)) if m else None
                if got is None:
                    for c, v in (rd.where or {}).items():
                        if c.lower() == 'parentlistid' and isinstance(vf._constval(v), int) and \
                                not isinstance(vf._constval(v), bool):
                            got = vf._constval(v)
                if got is None:
                    continue
                seen.add(rd.loc)
                inst = '%s compares with literal %s; %s == %s' % (_short(qn), got, 'PARENT_LIST_ID_NONE', pl_none)
                if got == pl_none:
                    chk.ok(T5, inst, rd.loc)
                else:
                    chk.violation(T5, '%s|%s' % (_short(qn), 'PARENT_LIST_ID_NONE'), rd.loc, inst + ': they differ')
    # the walker of the sibling chain starts the chain walk at the no-next sentinel
    for f in chain_walkers(prog, cg, (V2 + 'playlist_table::root_ids', V2 + 'playlist_table::child_ids')):
        refs = [(x.get('referencedDecl') or {}).get('name') for x in walk(f.body) if x.get('kind') == 'DeclRefExpr']
        lits = [program.literal_value(x) for x in walk(f.body) if x.get('kind') == 'IntegerLiteral']
        inst = '%s starts at the tail sentinel PLAYLIST_NO_NEXT_LIST_ID (%s)' % (f.name, nx_none)
        if 'PLAYLIST_NO_NEXT_LIST_ID' in refs or nx_none in lits:
            chk.ok(T5, inst, locstr(f.node))
        else:
            chk.violation(T5, '%s|tail sentinel' % f.name, locstr(f.node), inst + ': not found in the function')


def _input_dependent(conds):
    return [c for c in conds if any(x[0] == 'in' for x in vf.leaves(c))]


def old_position_removed(prog, cg, eff, chk, rid):
    for qn in (V1 + 'engine_crate_impl::set_parent',):
        for f, ip, ret in evaluate(prog, cg, eff, qn):
            chk.analysed(f)
            ins_tables = {(w.table or '').lower() for w in ip.writes if w.kind.startswith('insert')}
            if not ins_tables:
                chk.unknown(rid, _short(qn), 'no INSERT reached: anchor lost')
                continue
            for t in sorted(ins_tables):
                dels = [w for w in ip.writes if w.kind == 'delete' and (w.table or '').lower() == t
                        and any(_is_handle_id(v) for v in (w.where or {}).values())]
                uncond = [w for w in dels if not _input_dependent(w.conds)]
                inst = '%s: DELETE of the old %s row(s) of id() on every path' % (_short(qn), t)
                if uncond:
                    chk.ok(rid, inst, uncond[0].loc)
                else:
                    chk.violation(rid, '%s|old position kept in %s' % (_short(qn), t),
                                  dels[0].loc if dels else locstr(f.node),
                                  '%s inserts the new position into %s but %s: the old ancestors keep listing the '
                                  'crate among their descendants' % (
                                      _short(qn), t, 'deletes the old rows only under a condition on its argument'
                                      if dels else 'never deletes the old rows keyed by id()'))


def successor_is_sibling(prog, cg, eff, chk, rid):
    """A new list linked in front of the successor of another row R (nextListId read from R) must
    have R as a sibling: an un-conjoined test parentListId(R) != <parent written> that throws
    must precede the INSERT."""
    for qn in (V2 + 'crate_impl::create_sub_crate_after', V2 + 'database_impl::create_root_crate_after'):
        for f, ip, ret in evaluate(prog, cg, eff, qn):
            chk.analysed(f)
            nxt = [w for w in ip.writes if (w.table or '').lower() == 'playlist' and w.column == 'nextlistid'
                   and w.kind == 'insert']
            par = [w for w in ip.writes if (w.table or '').lower() == 'playlist' and w.column == 'parentlistid'
                   and w.kind == 'insert']
            if not nxt or not par:
                chk.unknown(rid, _short(qn), 'INSERT into Playlist not reached')
                continue
            src = [x for x in vf.leaves(nxt[0].value) if x[0] == 'loc' and x[2] == 'nextlistid']
            if not src:
                chk.unknown(rid, _short(qn), 'nextListId is not taken from another row')
                continue
            want_parent = _alternatives(par[0].value)
            ok = False
            for (seq, ty, node, fn, conds) in ip.throws:
                if 'crate_invalid_parent' not in (ty or '') or seq > nxt[0].seq:
                    continue
                dep = [c for c in conds if any(x[0] == 'loc' and x[2] == 'parentlistid' for x in vf.leaves(c))]
                if len(dep) != 1:
                    continue
                c = dep[0]
                if _is_plain_comparison(c, want_parent):
                    ok = True
            inst = '%s: the successor is taken from a row whose parentListId was compared with the parent written' % _short(qn)
            if ok:
                chk.ok(rid, inst, nxt[0].loc)
            else:
                chk.violation(rid, '%s|successor not checked to be a sibling' % _short(qn), nxt[0].loc,
                              '%s links the new list in front of the successor of another row without an '
                              'unconditional test that this row has the same parent (a throw guarded by '
                              'parentListId(after) != parent, not conjoined with anything else): a crate from '
                              'another sibling chain is accepted and the new crate vanishes from children()' % _short(qn))


def _is_plain_comparison(c, want_parent, neg=False):
    """c is `parentListId(R) != P` (either operand order), possibly a disjunct of an || chain.  The test is
    read with its polarity: `!(parentListId(R) == P)` (a named `is_sibling` flag that is negated, the else
    branch of the equality, a conjunct under a negation - De Morgan) is the same condition."""
    if c is None or not isinstance(c, tuple) or not c:
        return False
    if c[0] in ('call', 'callm') and c[3] is not None:
        # a predicate helper of the repository: what its body computes
        return _is_plain_comparison(c[3], want_parent, neg)
    if c[0] == 'op' and c[1] in ('!', 'operator!') and len(c[2]) == 1:
        return _is_plain_comparison(c[2][0], want_parent, not neg)
    if c[0] == 'op' and c[1] == ('&&' if neg else '||'):
        return any(_is_plain_comparison(a, want_parent, neg) for a in c[2])
    if c[0] == 'op' and c[1] in (('==', 'operator==') if neg else ('!=', 'operator!=')):
        a, b = c[2][0], c[2][1]
        for x, y in ((a, b), (b, a)):
            lx = [l for l in vf.leaves(x) if l[0] == 'loc']
            if lx and all(l[2] == 'parentlistid' for l in lx):
                ya = _alternatives(y)
                if any(p == q or (p[0] == 'id' and q[0] == 'id') or
                       (p[0] == 'const' and q[0] == 'const' and p[1] == q[1]) for p in ya for q in want_parent):
                    return True
    return False
