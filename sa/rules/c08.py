"""C08  Crate contents are exactly the tracks added and not removed (id-space and cleanup clauses).

K1  id-kind consistency of every membership statement (crate id / track id / entity id)
K2  referential cleanup when a track or crate is deleted
K3  membership key discipline: an INSERT into a membership table is preceded by a same-key
    existence check or delete
K4  the entity chain is relinked by the DDL when an entry is deleted (listing walks the chain)
"""
import re

from .. import program, callgraph, effects, valueflow as vf, rowrules, sql, schemas
from ..frontend import AnalysisBroken
from ..program import children, strip, walk, locstr
from ..report import Check
from .c07 import evaluate, _short, _is_handle_id, _flat

V1 = 'djinterop::engine::v1::'
V2 = 'djinterop::engine::v2::'
MEMBERSHIP = {'cratetracklist': {'crateid': 'crate', 'trackid': 'track'},
              'playlistentity': {'listid': 'crate', 'trackid': 'track', 'id': 'entity',
                                 'nextentityid': 'entity'}}
CRATE_METHODS = ['add_track', 'remove_track', 'clear_tracks', 'tracks']


def kind_of(t, handle_kind, func):
    """Id kind a term denotes: the handle's own id, the id of a parameter (by its type), an
    entity id read from the membership table, or None."""
    kinds = set()
    for x in _flat(t):
        if x == ('id',):
            kinds.add(handle_kind)
        elif x[0] == 'in':
            p = [p for p in func.params if p.get('name') == x[1]]
            ty = (p[0].get('type') or '') if p else ''
            if 'track' in ty and 'crate' not in ty:
                kinds.add('track')
            elif 'crate' in ty:
                kinds.add('crate')
            elif func.name in ('add_track', 'remove_track') and func.cls and func.cls.endswith('crate_impl') and \
                    re.search(r'\b(int|long|int64_t)\b', ty):
                # the integer parameter of crate::add_track / remove_track is a track id by the contract of the
                # public API (include/djinterop/crate.hpp), whatever the implementation calls it
                kinds.add('track')
            elif x[1] in ('track_id',):
                kinds.add('track')
            elif x[1] in ('list_id', 'crate_id'):
                kinds.add('crate')
            elif x[1] in ('entity_id',):
                kinds.add('entity')
            elif x[1] == 'row' and x[2]:
                kinds.add({'list_id': 'crate', 'track_id': 'track', 'id': 'entity',
                           'next_entity_id': 'entity'}.get(x[2].split('.')[0], 'other'))
        elif x[0] == 'loc':
            m = MEMBERSHIP.get((x[1] or '').lower(), {})
            if x[2] in m:
                kinds.add(m[x[2]])
            elif x[2] == 'id' and (x[1] or '').lower() in ('track',):
                kinds.add('track')
            elif x[2] == 'id' and (x[1] or '').lower() in ('crate', 'playlist', 'list'):
                kinds.add('crate')
        elif x[0] == 'op' and x[1] == 'last_insert_rowid':
            kinds.add('entity')
    return kinds


def run(tier='quick'):
    prog = program.load()
    cg = callgraph.get(prog)
    eff = effects.Effects(prog, cg)
    chk = Check('C08', tier)
    chk.units = len(prog.tus)
    K1 = chk.rule('K1', 'every value bound to a membership column has the id kind of that column: crateId / '
                        'listId <- the crate handle, trackId <- the track argument, PlaylistEntity.id <- an '
                        'entity id read from the table', floor=20)
    K2 = chk.rule('K2', 'when remove_track / remove_crate delete a row, every membership relation the observers '
                        'read that references it is cleaned in every schema version: by a trigger of that '
                        'version\'s DDL, by ON DELETE CASCADE with foreign keys switched on, or by an explicit '
                        'DELETE', floor=4)
    K3 = chk.rule('K3', 'an INSERT into a membership table is preceded on its path by a delete or an existence '
                        'lookup on the same table bound to the same crate and track', floor=2)
    K4 = chk.rule('K4', 'every 2.x schema relinks the entity chain when an entry is deleted (BEFORE DELETE '
                        'trigger on PlaylistEntity updating nextEntityId): the listing walks that chain', floor=5)
    chk.assume('SQLite fires the DDL triggers; foreign keys are enforced only after PRAGMA foreign_keys = ON')

    # ---- K1 / K3 -------------------------------------------------------------------------
    entries = []
    for m in CRATE_METHODS:
        entries.append((V1 + 'engine_crate_impl::' + m, 'crate'))
        entries.append((V2 + 'crate_impl::' + m, 'crate'))
    entries.append((V1 + 'engine_track_impl::containing_crates', 'track'))
    for qn, hk in entries:
        fs = [f for f in prog.by_name(qn) if f.body is not None and not f.is_pattern]
        if not fs:
            raise AnalysisBroken('anchor function %s not found' % qn)
        for f in fs:
            chk.analysed(f)
            ip = vf.Interp(prog, cg, eff)
            ip.run(f)
            uses = []
            for rd in ip.reads:
                t = (rd.table or '').lower()
                if t in MEMBERSHIP:
                    for c, v in rd.where.items():
                        uses.append((t, c.lower(), v, rd.loc, 'where'))
            for w in ip.writes:
                t = (w.table or '').lower()
                if t not in MEMBERSHIP:
                    continue
                if w.kind == 'insert' and w.column in MEMBERSHIP[t]:
                    uses.append((t, w.column, w.value, w.loc, 'insert'))
                for c, v in (w.where or {}).items():
                    uses.append((t, c.lower(), v, w.loc, 'where'))
            seen = set()
            for t, c, v, loc, how in uses:
                want = MEMBERSHIP[t].get(c)
                if want is None or (loc, c) in seen:
                    continue
                seen.add((loc, c))
                ks = kind_of(v, hk, f) - {'other'}
                if vf._constval(v) is not None and not ks:
                    continue
                inst = '%s: %s.%s (%s) <- %s' % (_short(f.qualname), t, c, how, sorted(ks) or vf.shape(v)[:40])
                if ks == {want} or (want in ks and len(ks) == 1):
                    chk.ok(K1, inst, loc)
                elif not ks:
                    chk.unknown(K1, inst, 'id kind of the bound value could not be determined')
                else:
                    chk.violation(K1, '%s|%s.%s bound to %s id' % (_short(f.qualname), t, c, '/'.join(sorted(ks))), loc,
                                  '%s binds a %s id to column %s.%s, which holds %s ids: the statement addresses '
                                  'the wrong rows whenever the two ids differ' % (
                                      _short(f.qualname), '/'.join(sorted(ks)), t, c, want))
            # K3
            if f.name == 'add_track' and len(f.params) == 1 and 'int' in (f.params[0].get('type') or ''):
                ins = [w for w in ip.writes if w.kind == 'insert' and (w.table or '').lower() in MEMBERSHIP
                       and w.column == 'trackid']
                for w in ins:
                    t = (w.table or '').lower()
                    before = [x for x in ip.writes if x.kind == 'delete' and (x.table or '').lower() == t and x.seq < w.seq] + \
                             [r for r in ip.reads if (r.table or '').lower() == t and r.seq < w.seq]
                    good = False
                    for b in before:
                        wh = {c.lower(): v for c, v in (b.where or {}).items()}
                        crate_col = [c for c, k in MEMBERSHIP[t].items() if k == 'crate'][0]
                        if crate_col in wh and 'trackid' in wh and \
                                kind_of(wh[crate_col], 'crate', f) == {'crate'} and kind_of(wh['trackid'], 'crate', f) == {'track'}:
                            good = True
                    inst = '%s: INSERT into %s preceded by a same-key delete / lookup' % (_short(f.qualname), t)
                    if good:
                        chk.ok(K3, inst, w.loc)
                    else:
                        chk.violation(K3, '%s|unguarded insert into %s' % (_short(f.qualname), t), w.loc,
                                      '%s inserts a membership row without first deleting or looking up the row '
                                      'for the same crate and track: adding a track that is already present '
                                      'creates a duplicate' % _short(f.qualname))

    # ---- K2 ------------------------------------------------------------------------------
    _cleanup(prog, cg, eff, chk, K2)
    # ---- K4 ------------------------------------------------------------------------------
    chain_triggers(prog, chk, K4)
    chain_trigger_siblings(prog, chk, K4)
    from .. import domains
    domains.apply_rule(prog, eff, chk, K4, gens=(2,), trigger_tables=('playlist', 'playlistentity'), library=False)
    K5 = chk.rule('K5', 'identifier domains of C++ values: the id() of a crate / track handle is bound only against '
                        'columns naming that kind of row, directly or through the parameters of the storage / table '
                        'functions it is passed to (spec/domains.json)', floor=100)
    domains.apply_bind_rule(prog, cg, eff, chk, K5)
    domains.apply_width_rule(prog, cg, eff, chk, K5)
    K6 = chk.rule('K6', 'membership depends on the library only: no static is initialised from a parameter, this or a '
                        'call (a database uuid cached in a static is shared by every library of the process); the '
                        'tables that hold crates and memberships are created as the reference dump defines them '
                        '(AUTOINCREMENT ids are never handed out again)', floor=20)
    from . import c10 as _c10
    _c10.runtime_statics(prog, chk, K6)
    tables_match_reference(prog, chk, K6, ('Playlist', 'PlaylistEntity', 'Crate', 'CrateTrackList', 'List',
                                           'ListTrackList', 'Track'))
    K7 = chk.rule('K7', 'add_track makes a member only of a live track of this library: before its first write it reads '
                        'the Track table keyed by the id it was given and throws when there is no such row (foreign keys '
                        'are not enforced, so nothing else would refuse it), and likewise for its own crate', floor=6)
    from . import c07 as _c07
    for qn in (_c07.V1 + 'engine_crate_impl::add_track', _c07.V2 + 'crate_impl::add_track'):
        _c07.liveness_guard(prog, cg, eff, chk, K7, qn, ('track',), 'arg',
                            'an id that names no track (never created, removed, zero or negative) becomes a member: '
                            'tracks() returns a handle that is not live, a track created later with that id is born '
                            'inside the crate, and on 2.x the entry chain is not respliced when such an entry is removed')
        _c07.liveness_guard(prog, cg, eff, chk, K7, qn, ('crate', 'list', 'playlist'), 'own',
                            'a membership is written for a crate that does not exist')
    K8 = chk.rule('K8', 'what counts as a track is decided the same way everywhere (1.x): every statement that lists the '
                        'Track rows or tests one for existence carries the row filter of database::tracks() - from 1.17.0 '
                        'on a trigger keeps a placeholder row (path NULL) that tracks() leaves out; a probe without the '
                        'filter accepts its id as a track', floor=4)
    track_row_filter_agreement(prog, eff, chk, K8)
    K9 = chk.rule('K9', 'a track added to a crate is listed with the earlier ones: the function that inserts a row into PlaylistEntity makes the previous tail point at it: the id written into the old '
                        'tail is last_insert_rowid() read after the INSERT (not a predicted MAX(id) + 1, wrong once the '
                        'highest row of the AUTOINCREMENT table was deleted), and the old tail is found as the row of the '
                        'list whose next-pointer is the sentinel 0 (not by its id)', floor=1)
    from . import extra
    extra.new_tail_linked(prog, cg, eff, chk, K9)
    K10 = chk.rule('K10', 'the membership operations rely on the transaction guard (add / remove are several statements; a rejected one must leave no partial membership and no transaction open): the guard begins, commits - setting its flag only after COMMIT succeeded - and rolls back exactly when not committed', floor=4)
    from . import c14 as _c14g
    _c14g._guard_shape(prog, eff, chk, K10)
    K11 = chk.rule('K11', 'the rows a DELETE / UPDATE of the library touches are selected by equality on keys, never by LIKE / '
                          'GLOB against a bound or computed pattern (case-insensitive, _ and % are wildcards: memberships of '
                          'other crates whose names merely resemble the pattern would go as well)', floor=20)
    extra.no_pattern_match_in_writes(prog, cg, eff, chk, K11)
    K12 = chk.rule('K12', 'a membership operation that fails says so: no catch handler reachable from add_track / remove_track / '
                          'clear_tracks / remove_crate / remove_track of the database completes normally on an SQL error or on a '
                          'type that a handler of the library throws in place of one (rule A4 of C14) - otherwise remove_track '
                          'returns normally while the track is still in the crate', floor=1)
    from . import c14 as _c14s
    roots = [f for f in prog.functions.values() if f.body is not None and not f.is_pattern and prog.in_repo(f.file) and
             f.name in ('add_track', 'remove_track', 'clear_tracks', 'remove_crate', 'add_back', 'remove', 'clear') and
             (f.cls or '').startswith('djinterop::engine::')]
    _c14s.swallowed_errors(prog, cg, chk, K12, roots)
    return chk.finish('value-flow interpretation of the membership operations of both implementations '
                      '(id kinds of bound values, event order), reference graph and triggers read from the DDL '
                      'of every schema version')


def chain_triggers(prog, chk, rid, table='PlaylistEntity', col='nextentityid', event='DELETE'):
    order = rowrules.enum_order(prog)
    cats = rowrules.version_catalogs(prog)
    from . import c13
    supported = set(c13._supported(prog))
    for en in order:
        if en not in supported or not rowrules._gen2(en):
            continue
        cat = cats[en]['main']
        hit = [t for t in cat.triggers.values() if (t.table or '').lower() == table.lower()
               and (t.event or '').upper() == event and
               any(s.kind == 'update' and (s.table or '').lower() == table.lower() and
                   any(c.lower() == col for c, _ in s.sets) for s in (t.body or []))]
        inst = '%s: %s trigger on %s rewrites %s' % (en, event, table, col)
        if hit:
            chk.ok(rid, inst + ' (%s)' % hit[0].name, en)
        else:
            chk.violation(rid, '%s|no %s relink trigger on %s' % (en, event.lower(), table), en,
                          '%s: the DDL has no %s trigger on %s that updates %s: removing an entry that is not '
                          'the first of its list cuts the chain, and every earlier entry disappears from the '
                          'listing' % (en, event, table, col))


_REFDEFS = {}


def _reference_defs(prog):
    """{(version triple, 'trigger'|'view', lower name): {normalised definition, ...}} from testdata/ref."""
    from .. import sql as sqlmod
    key = prog.repo
    if key in _REFDEFS:
        return _REFDEFS[key]
    out = {}
    try:
        refs = schemas.load_references(prog.repo)
    except AnalysisBroken:
        refs = []
    for r in refs:
        for cat in r.catalogs.values():
            for (kind, nm), st in cat.raw.items():
                if kind in ('trigger', 'view') and r.version:
                    out.setdefault((tuple(r.version), kind, nm), set()).add(sqlmod.norm_tokens(st.toks))
    _REFDEFS[key] = out
    return out


def track_row_filter_agreement(prog, eff, chk, K8):
    import re as _re
    deciders = []
    for f in sorted(prog.functions.values(), key=lambda x: (x.file or '', x.line)):
        if f.body is None or f.is_pattern or '/engine/v1/' not in (f.file or ''):
            continue
        for st in eff.sites(f):
            si = st.stored_in
            if si is None or si.kind != 'select' or (si.table or '').lower() != 'track':
                continue
            cols = [c.lower().replace(' ', '') for c in (si.columns or [])]
            if not cols or not all(c == 'id' or _re.match(r'count\(.*\)$', c) for c in cols):
                continue        # reads columns of a row it was given, does not decide membership
            w = si.where.text().lower() if si.where is not None else ''
            notnull = set(m_[0] for m_ in _re.findall(r'(\w+)\s+(is\s+not\s+null|notnull|not\s+null)', w))
            equal = set(_re.findall(r'(\w+)\s*=\s*\?', w))
            deciders.append((f, st, notnull, equal, w))
    listing = [d for d in deciders if not d[3]]        # no key: the listing of all tracks
    if not listing:
        raise AnalysisBroken('K8: the statement that lists all tracks was not found')
    want = set()
    for d in listing:
        want |= d[2]
    for f, st, notnull, equal, w in deciders:
        chk.analysed(f)
        short = f.qualname.replace('djinterop::engine::', '')
        inst = '%s: SELECT %s FROM Track WHERE %s' % (short, ', '.join(st.stored_in.columns or []), w or '-')
        missing = sorted(c for c in want if c not in notnull and c not in equal)
        if missing:
            chk.violation(K8, '%s|no %s IS NOT NULL' % (short, missing[0]), locstr(st.node),
                          '%s lacks the row filter of the track listing (%s IS NOT NULL): the placeholder row that '
                          'trigger_after_delete_Track keeps above the highest id (1.17.0, 1.18.0) passes this test - '
                          'track_by_id / is_valid report it as a track and add_track makes it a member although '
                          'database::tracks() does not list it' % (inst, missing[0]))
        else:
            chk.ok(K8, inst, locstr(st.node))


def tables_match_reference(prog, chk, rid, tables, gens=(1, 2)):
    """The definition each supported creator issues for the named tables (columns with their types
    and constraints, AUTOINCREMENT, keys) equals the definition in a reference dump of the same
    version (testdata/ref).  One instance per (version, table) that has a reference."""
    from . import c13
    cats = rowrules.version_catalogs(prog)
    supported = [en for en in rowrules.enum_order(prog) if en in set(c13._supported(prog))]
    try:
        refs = schemas.load_references(prog.repo)
    except AnalysisBroken:
        refs = []
    n = 0
    for en in supported:
        g = 2 if rowrules._gen2(en) else 1
        if g not in gens:
            continue
        ver, variant = c13._triple(en)
        cands = [r for r in refs if r.version and tuple(r.version) == ver and
                 (ver != (1, 18, 0) or r.variant == variant)]
        if not cands:
            continue
        for alias, cat in cats[en].items():
            mine = cat.object_sigs()
            for t in tables:
                key = ('table', t.lower())
                if key not in mine:
                    continue
                theirs = [r.catalogs[alias].object_sigs().get(key) for r in cands if alias in r.catalogs]
                theirs = [x for x in theirs if x is not None]
                if not theirs:
                    continue
                n += 1
                inst = '%s: table %s as created equals its definition in the reference dump(s) of the version' % (en, t)
                if mine[key] in theirs:
                    chk.ok(rid, inst, en)
                else:
                    a, b = mine[key], theirs[0]
                    diff = [(x, y) for x, y in zip(a[2], b[2]) if x != y][:2] or [(a[3:], b[3:])]
                    chk.violation(rid, '%s|table %s differs from the reference' % (en, t), en,
                                  '%s: created %s, reference %s (column tuple: name, type, notnull, default, pk, '
                                  'autoincrement, unique, references, collate, check)' % (inst, diff[0][0], diff[0][1]))
    return n


def chain_trigger_siblings(prog, chk, rid, tables=('playlist', 'playlistentity'), views=()):
    """The per-version copies of a chain-maintaining trigger are siblings: all supported 2.x
    creators must issue the same normalised definition for a trigger of the same name (the
    reference dumps of these versions agree on them; a copy that differs was edited alone)."""
    import collections
    from .. import sql as sqlmod
    order = rowrules.enum_order(prog)
    cats = rowrules.version_catalogs(prog)
    from . import c13
    supported = set(c13._supported(prog))
    by = collections.defaultdict(dict)
    for en in order:
        if en not in supported or not rowrules._gen2(en):
            continue
        for n, t in cats[en]['main'].triggers.items():
            if (t.table or '').lower() in tables:
                raw = cats[en]['main'].raw.get(('trigger', n))
                by[n][en] = sqlmod.norm_tokens(raw.toks) if raw is not None else str(t.norm)
        for n, v in cats[en]['main'].views.items():
            if n in views:
                raw = cats[en]['main'].raw.get(('view', n))
                if raw is not None:
                    by['view ' + n][en] = sqlmod.norm_tokens(raw.toks)
    # a copy that differs from its siblings is a legitimate change of that version when a reference
    # dump of the version (testdata/ref) carries the same definition
    refs = _reference_defs(prog)
    for n, d in sorted(by.items()):
        cnt = collections.Counter(d.values())
        major, _ = cnt.most_common(1)[0]
        odd = []
        for en, v in sorted(d.items()):
            if v == major:
                continue
            ver = c13._triple(en)[0]
            kind, nm = ('view', n[5:]) if n.startswith('view ') else ('trigger', n)
            if v in refs.get((ver, kind, nm.lower()), ()):
                chk.ok(rid, '%s %s: the %s copy differs from its siblings and equals the reference dump of its '
                            'version' % (kind, nm, en), en)
                continue
            odd.append(en)
        inst = '%s: %d version copies' % (n if n.startswith('view ') else 'trigger ' + n, len(d))
        # independent of the majority: each copy equals the definition in a reference dump of its version
        kind_, nm_ = ('view', n[5:]) if n.startswith('view ') else ('trigger', n)
        for en, v in sorted(d.items()):
            have = refs.get((c13._triple(en)[0], kind_, nm_.lower()))
            if have and v not in have and en not in odd:
                a, b = v, sorted(have)[0]
                k = 0
                while k < min(len(a), len(b)) and a[k] == b[k]:
                    k += 1
                k = max(0, a.rfind(' ', 0, max(0, k - 30)) + 1)
                chk.violation(rid, '%s|%s differs from the reference dump' % (en, n), en,
                              '%s: the copy issued by the %s creator differs from the definition in the reference '
                              'dump(s) of that version: ... %s  vs  ... %s' % (inst, en, a[k:k + 120], b[k:k + 120]))
        if not odd:
            chk.ok(rid, inst + ' identical', n)
        else:
            for en in odd:
                a, b = d[en], major
                k = 0
                while k < min(len(a), len(b)) and a[k] == b[k]:
                    k += 1
                k = max(0, a.rfind(' ', 0, max(0, k - 30)) + 1)
                chk.violation(rid, '%s|%s differs from its sibling copies' % (en, n), en,
                              '%s: the copy issued by the %s creator differs from the definition the other %d '
                              'version(s) issue: ... %s  vs  ... %s' % (inst, en, len(d) - len(odd),
                                                                       a[k:k + 120], b[k:k + 120]))


def _underlying(cat, name):
    """tables a view selects from (one level); a table is its own underlying."""
    n = name.lower()
    if n in cat.tables:
        return [n]
    if n in cat.views:
        v = cat.views[n]
        return [t.lower() for (_, t, _) in (v.select.tables or [])]
    return []


def _cleanup(prog, cg, eff, chk, K2, all_fk_relations=False):
    order = rowrules.enum_order(prog)
    cats = rowrules.version_catalogs(prog)
    from . import c13
    supported = set(c13._supported(prog))
    # does any connection-opening path switch foreign keys on?
    fk_on = False
    for f in prog.functions.values():
        if f.body is None or f.is_pattern or '/schema/' in (f.file or ''):
            continue
        for s in eff.sites(f):
            st = s.stored_in
            if st is not None and st.kind == 'pragma' and 'foreign_keys' in st.text().lower() and \
                    re.search(r'=\s*(on|1|true)', st.text().lower()):
                fk_on = True
    ops = [
        (V1 + 'engine_database_impl::remove_track', 'track', ['cratetracklist'], 1),
        (V1 + 'engine_database_impl::remove_crate', 'crate', ['cratetracklist', 'crateparentlist', 'cratehierarchy'], 1),
        (V2 + 'database_impl::remove_track', 'track', ['playlistentity'], 2),
        (V2 + 'database_impl::remove_crate', 'playlist', ['playlistentity', 'playlist'], 2),
    ]
    if all_fk_relations:
        # every table that declares a foreign key to the deleted table, in any supported version of the
        # generation (PRAGMA foreign_key_check reports each row left behind)
        # ... restricted to tables the library ever fills (its own INSERT / REPLACE statements or the
        # INSERTs of the DDL triggers): rows only foreign software writes are outside the histories
        # the property quantifies over
        written = set()
        for f_ in prog.functions.values():
            if f_.body is None or f_.is_pattern or '/schema/' in (f_.file or ''):
                continue
            for s_ in eff.sites(f_):
                st_ = s_.stored_in
                if st_ is not None and st_.kind == 'insert' and st_.table:
                    written.add(st_.table.lower())
        for en in order:
            if en not in supported:
                continue
            for c in cats[en].values():
                for t_ in c.triggers.values():
                    for b_ in (t_.body or []):
                        if b_.kind == 'insert' and b_.table:
                            written.add(b_.table.lower())
        ops2 = []
        for qn, deleted, relations, gen in ops:
            rels = list(relations)
            for en in order:
                if en not in supported or (rowrules._gen2(en) != (gen == 2)):
                    continue
                for c in cats[en].values():
                    d_tabs = _underlying(c, deleted) + [deleted] if (deleted in c.tables or deleted in c.views) else [deleted]
                    for tn, td in c.tables.items():
                        refs = [fk[1] for fk in td.fks] + [col.references[0] for col in td.columns if col.references]
                        if any((r or '').lower() in d_tabs for r in refs) and tn not in rels and tn not in d_tabs \
                                and tn in written:
                            # not the table underneath a relation (view) that is already listed
                            under = set()
                            for r0 in rels:
                                under |= set(_underlying(c, r0)) if (r0 in c.views) else set()
                            if tn not in under:
                                rels.append(tn)
            ops2.append((qn, deleted, rels, gen))
        ops = ops2
    for qn, deleted, relations, gen in ops:
        for f, ip, ret in evaluate(prog, cg, eff, qn):
            chk.analysed(f)
            dels = [w for w in ip.writes if w.kind == 'delete']
            if not any((w.table or '').lower() == deleted for w in dels):
                chk.unknown(K2, _short(qn), 'the DELETE on %s was not reached' % deleted)
                continue
            explicit = {(w.table or '').lower() for w in dels}
            for rel in relations:
                bad = []
                how = set()
                for en in order:
                    if en not in supported or (rowrules._gen2(en) != (gen == 2)):
                        continue
                    allc = cats[en]
                    cat = None
                    for alias, c in allc.items():
                        if deleted in c.tables or deleted in c.views:
                            cat = c
                    if cat is None:
                        continue
                    if rel in explicit and rel != deleted:
                        how.add('explicit DELETE')
                        continue
                    if all_fk_relations and not any(rel in c.tables or rel in c.views for c in allc.values()):
                        continue
                    d_tabs = _underlying(cat, deleted)
                    r_tabs = _underlying(cat, rel)
                    if all_fk_relations and rel not in cat.tables and rel not in cat.views:
                        # the relation lives in the other attached file: look its definition up there
                        for c2 in allc.values():
                            if rel in c2.tables:
                                r_tabs = [rel]
                                cat_r = c2
                    cleaned = False
                    # trigger on the deleted table (or its underlying table) that deletes from the relation
                    for t in cat.triggers.values():
                        if (t.event or '').upper() != 'DELETE':
                            continue
                        if (t.table or '').lower() not in d_tabs + [deleted]:
                            continue
                        for s in (t.body or []):
                            if s.kind == 'delete' and (s.table or '').lower() in r_tabs + [rel]:
                                cleaned = True
                                how.add('trigger %s' % t.name)
                    if not cleaned:
                        for rt in r_tabs:
                            td = cat.tables.get(rt)
                            for fk in (td.fks if td else []):
                                cols, ref, refcols, on_delete = fk[0], fk[1], fk[2], fk[3]
                                if (ref or '').lower() in d_tabs + [deleted] and (on_delete or '').upper() == 'CASCADE':
                                    if fk_on:
                                        cleaned = True
                                        how.add('ON DELETE CASCADE')
                    if not cleaned:
                        bad.append(en)
                inst = '%s: rows of %s referring to the deleted %s' % (_short(qn), rel, deleted)
                if bad:
                    chk.violation(K2, '%s|%s not cleaned' % (_short(qn), rel), locstr(f.node),
                                  '%s are not removed in %d schema version(s) (%s%s): no trigger of the DDL deletes '
                                  'them, no explicit DELETE is issued, and ON DELETE CASCADE is inert because no '
                                  'connection ever executes PRAGMA foreign_keys = ON; the rows stay visible in the '
                                  'listings' % (inst, len(bad), ', '.join(bad[:3]), ' ...' if len(bad) > 3 else ''),
                                  facts={'versions': bad, 'foreign_keys_switched_on': fk_on})
                else:
                    chk.ok(K2, inst + ' cleaned by ' + ', '.join(sorted(how))[:80], locstr(f.node))
