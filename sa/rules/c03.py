"""C03  Every blob codec decodes its own encoding to the original value.

S1  encoder / decoder symmetry derived from the code alone (no layout table)
S2  representability guards: a length narrowed into a narrower wire field is range-checked
S3  extent equation: bytes written by an encoder == bytes it allocated, for all values
S4  sentinel collisions: the constant that encodes "absent" is not a legal present value
S5  sibling guard: the v1 bulk write path applies the decode-after-encode guard of the
    single-column path
"""
import re

from .. import program, codec
from ..codec import WIDTH, linearise, is_plain
from ..frontend import AnalysisBroken
from ..program import children, strip, walk, locstr, literal_value
from ..report import Check

ENG = 'djinterop::engine::'

# numeric "0 = unknown" conventions of the Engine format: value 0 in these wire fields
# denotes "not known", so an explicitly present 0 is outside the encodable domain (the public
# setters normalise it to absent before encoding).  One line of reason each.
NUMERIC_ZERO_IS_NONE = {
    ('v1 track_data', 'sample_rate'): 'sample rate 0 Hz is not a rate; Engine writes 0 for unanalysed tracks',
    ('v1 track_data', 'sample_count'): '0 samples = no audio analysed',
    ('v1 track_data', 'average_loudness'): 'set_average_loudness documents "zero is interpreted as no loudness"',
    ('v1 beat_data', 'sample_rate'): 'same convention as trackData: 0 Hz = not analysed',
    ('v1 beat_data', 'sample_count'): 'same convention as trackData: 0 samples = not analysed',
}


def _short(q):
    return q.replace(ENG, '')


# --------------------------------------------------------------------------- S1
def _sym(le, ld, path, msgs):
    """Compare one encoder linearisation with one decoder linearisation."""
    i = j = 0
    while i < len(le) and j < len(ld):
        a, b = le[i], ld[j]
        # idiom: an empty slot writes label length 0 and therefore no label bytes
        if b[0] == 'bytes' and a[0] != 'bytes' and i > 0 and le[i - 1][:2] == ('prim', 'uint8') \
                and le[i - 1][2] == 'const:0':
            j += 1
            continue
        # idiom: the decoder skips n bytes that the encoder fills with constants
        if b[0] == 'skip' and a[0] == 'prim':
            need, k = b[1], i
            while k < len(le) and need > 0 and le[k][0] == 'prim' and not is_plain(le[k][2]):
                need -= WIDTH[le[k][1]]
                k += 1
            if need == 0:
                i, j = k, j + 1
                continue
        if a[0] != b[0]:
            msgs.append('%s item #%d: encoder has %s, decoder has %s' % (path, i, a[0], b[0]))
            return False
        if a[0] == 'prim':
            if a[1] != b[1]:
                msgs.append('%s item #%d (%s): encoder writes %s, decoder reads %s' % (
                    path, i, a[2], a[1], b[1]))
                return False
            if is_plain(a[2]) and is_plain(b[2]) and a[2] != b[2]:
                msgs.append('%s item #%d: encoder writes field %s where the decoder fills %s' % (
                    path, i, a[2], b[2]))
                return False
        elif a[0] == 'bytes':
            if is_plain(a[2]) and is_plain(b[2]) and a[2] != b[2]:
                msgs.append('%s byte run: encoder writes %s, decoder fills %s' % (path, a[2], b[2]))
                return False
            if b[1] != 'rest' and is_plain(a[1]) and is_plain(b[1]) and a[1] != b[1]:
                msgs.append('%s byte run %s: length sources differ (%s / %s)' % (path, a[2], a[1], b[1]))
                return False
        elif a[0] == 'repeat':
            if is_plain(a[1]) and is_plain(b[1]) and a[1] != b[1]:
                msgs.append('%s repeat: encoder counts %s, decoder counts %s' % (path, a[1], b[1]))
                return False
            for ba in a[2]:
                sub = []
                if not any(_sym(ba, bd, path + '/' + a[1], sub) for bd in b[2]):
                    msgs.extend(sub[:2])
                    return False
        i += 1
        j += 1
    # a decoder may tolerate trailing bytes the encoder never produces
    if i == len(le) and j == len(ld) - 1 and ld[j][0] == 'bytes' and ld[j][1] == 'rest' \
            and not is_plain(ld[j][2].split('.')[0]) or \
            (i == len(le) and j == len(ld) - 1 and ld[j][0] == 'bytes' and ld[j][2] == 'trailing'):
        j += 1
    if i != len(le) or j != len(ld):
        msgs.append('%s: encoder has %d item(s), decoder %d' % (path, len(le), len(ld)))
        return False
    return True


# --------------------------------------------------------------------------- S3
class Lin(dict):
    """linear form: {symbol: coeff}, '' = constant"""

    def add(self, o, k=1):
        r = Lin(self)
        for s, c in o.items():
            r[s] = r.get(s, 0) + k * c
            if r[s] == 0:
                del r[s]
        return r

    def scale(self, k):
        return Lin({s: c * k for s, c in self.items() if c * k != 0})

    def show(self):
        parts = []
        for s in sorted(self, key=lambda x: (x != '', x)):
            c = self[s]
            parts.append(str(c) if s == '' else ('%s' % s if c == 1 else '%d*%s' % (c, s)))
        return ' + '.join(parts) or '0'


def written(items, ctx=None):
    """Bytes emitted by a grammar as a linear form; alt arms must agree on the constant
    part (symbolic label sums of the absent arm are zero)."""
    total = Lin()
    problems = []
    for it in items:
        if it[0] == 'prim':
            total = total.add(Lin({'': WIDTH[it[1]]}))
        elif it[0] == 'bytes':
            f = it[2]
            if ctx and '[]' in f:
                total = total.add(Lin({'sum:size(%s)' % f: 1}))
            else:
                total = total.add(Lin({'size(%s)' % f: 1}))
        elif it[0] == 'repeat':
            body, pr = written(it[2], ctx=it[1])
            problems += pr
            if it[1].startswith('const:'):
                total = total.add(body.scale(int(it[1][6:])))
            else:
                cnt = it[1]          # size(X)
                for s, c in body.items():
                    if s == '':
                        total = total.add(Lin({'n:%s' % cnt: c}))
                    else:
                        total = total.add(Lin({s: c}))
        elif it[0] == 'alt':
            a, pa = written(it[2], ctx)
            b, pb = written(it[3], ctx)
            problems += pa + pb
            if a.get('', 0) != b.get('', 0):
                problems.append('the two arms of %s write different fixed sizes (%s / %s)' % (
                    it[1], a.show(), b.show()))
            sa = Lin({s: c for s, c in a.items() if s != ''})
            sb = Lin({s: c for s, c in b.items() if s != ''})
            # the arm that carries variable-length data defines the sum; the other arm's is zero
            total = total.add(Lin({'': a.get('', 0)})).add(sa if sa else sb)
        elif it[0] == 'skip':
            total = total.add(Lin({'': it[1]}))
    return total, problems


class AllocEval:
    def __init__(self, ex, f):
        self.ex = ex
        self.f = f
        self.locals = {}
        self.decls = {}
        for n in walk(f.body):
            if n.get('kind') == 'VarDecl' and n.get('id'):
                self.decls[n['id']] = n
                init = [x for x in children(n) if not x['kind'].endswith('Attr')]
                if init:
                    self.locals[n['id']] = init[-1]
        self.single = program.single_assignment_locals(f.node)
        self.busy = set()

    def ev(self, n):
        n = strip(n, explicit=True)
        k = n.get('kind')
        if k == 'IntegerLiteral':
            return Lin({'': int(n['value'])})
        if k == 'BinaryOperator':
            c = children(n)
            op = n.get('opcode')
            a, b = self.ev(c[0]), self.ev(c[1])
            if a is None or b is None:
                return None
            if op == '+':
                return a.add(b)
            if op == '-':
                return a.add(b, -1)
            if op == '*':
                if set(a) <= {''}:
                    return b.scale(a.get('', 0))
                if set(b) <= {''}:
                    return a.scale(b.get('', 0))
            return None
        if k == 'CXXMemberCallExpr':
            r = self.ex.resolve(n, {}, self.f.tu)
            if r.startswith('size('):
                inner = r[5:-1]
                return Lin({('n:size(%s)' % inner): 1}) if not inner.startswith('extra') and \
                    self._is_container_of_records(n) else Lin({'size(%s)' % inner: 1})
            return None
        if k == 'DeclRefExpr':
            rid = (n.get('referencedDecl') or {}).get('id')
            if rid in self.busy:
                return None
            if rid in self.decls:
                if rid in self.single:
                    init = self.locals.get(rid)
                    if init is None:
                        return None
                    self.busy.add(rid)
                    try:
                        return self.accumulate(init) or self.ev(init)
                    finally:
                        self.busy.discard(rid)
                # a local that is written after its declaration: its value where the allocation reads it is
                # the initial value plus what the loops before added to it
                return self.summed(rid)
            # a named constant of the file / namespace (constexpr std::size_t fixed_part = 33;)
            d = self.f.tu.ids.get(rid)
            if d is not None and d.get('kind') == 'VarDecl' and ('const' in (d.get('type') or '') or d.get('constexpr')):
                init = [x for x in children(d) if not x['kind'].endswith('Attr') and not x['kind'].endswith('Comment')]
                if init:
                    self.busy.add(rid)
                    try:
                        return self.ev(init[-1])
                    finally:
                        self.busy.discard(rid)
            return None
        if k in ('CXXConstructExpr', 'InitListExpr'):
            c = [x for x in children(n) if x.get('kind') != 'CXXDefaultArgExpr']
            if len(c) == 1:
                return self.ev(c[0])
        return None

    def summed(self, vid):
        """total = K; for (e : C) [if (e)] total += e.M.length();   ->   K + sum over C of the length of M.
        Every write of the variable must have that form (anything else: not modelled)."""
        init = self.locals.get(vid)
        total = self.ev(init) if init is not None else None
        if total is None:
            return None
        tu = self.f.tu

        def visit(n, loops):
            nonlocal total
            k = n.get('kind')
            if k == 'CXXForRangeStmt':
                inner = n.get('inner', [])
                lv = children(inner[-2])[0] if inner[-2].get('kind') == 'DeclStmt' and children(inner[-2]) else None
                rng = inner[1]
                cont = None
                if rng.get('kind') == 'DeclStmt' and children(rng) and children(children(rng)[0]):
                    cont = self.ex.resolve(children(children(rng)[0])[-1], {}, tu)
                for c in inner[:-1]:
                    if c.get('kind') and not visit_expr_only(c):
                        return False
                return visit(inner[-1], loops + [(lv, cont)])
            if k in ('ForStmt', 'WhileStmt', 'DoStmt', 'LambdaExpr'):
                return not writes(n)
            tgt = None
            if k in ('BinaryOperator', 'CompoundAssignOperator') and (n.get('opcode') or '').endswith('=') \
                    and n.get('opcode') not in ('==', '!=', '<=', '>='):
                tgt = strip(children(n)[0], explicit=True)
            elif k == 'UnaryOperator' and n.get('opcode') in ('++', '--'):
                tgt = strip(children(n)[0], explicit=True)
            if tgt is not None and tgt.get('kind') == 'DeclRefExpr' and (tgt.get('referencedDecl') or {}).get('id') == vid:
                if k != 'CompoundAssignOperator' or n.get('opcode') != '+=' or len(loops) != 1 or loops[0][0] is None:
                    return False
                lv, cont = loops[0]
                term = strip(children(n)[1], explicit=True)
                if term.get('kind') != 'CXXMemberCallExpr' or strip(children(term)[0]).get('name') not in ('length', 'size'):
                    return False
                r = self.ex.resolve(term, {lv['id']: '%s[]' % cont}, tu)
                if not (r.startswith('size(%s[].' % cont) and is_plain(r[5:-1])):
                    return False
                total = total.add(Lin({'sum:%s' % r: 1}))
                return True
            for c in children(n):
                if not visit(c, loops):
                    return False
            return True

        def writes(n):
            for x in walk(n):
                k = x.get('kind')
                t = None
                if k in ('BinaryOperator', 'CompoundAssignOperator') and (x.get('opcode') or '').endswith('=') \
                        and x.get('opcode') not in ('==', '!=', '<=', '>='):
                    t = strip(children(x)[0], explicit=True)
                elif k == 'UnaryOperator' and x.get('opcode') in ('++', '--'):
                    t = strip(children(x)[0], explicit=True)
                if t is not None and t.get('kind') == 'DeclRefExpr' and (t.get('referencedDecl') or {}).get('id') == vid:
                    return True
            return False

        def visit_expr_only(n):
            return not writes(n)
        if not visit(self.f.body, []):
            return None
        return total

    def _is_container_of_records(self, n):
        # size() of a byte vector is a byte count; size() of a vector of records is an
        # element count.  Decide on the element type of the receiver.
        callee = strip(children(n)[0])
        obj = children(callee)[0] if children(callee) else None
        t = (strip(obj).get('type') or '') if obj is not None else ''
        return 'std::byte' not in t and 'basic_string' not in t and 'string' not in t

    def accumulate(self, init):
        """std::accumulate(C.begin(), C.end(), 0, [](x, e) { return x + LEN(e); })"""
        n = strip(init, explicit=True)
        if n.get('kind') != 'CallExpr':
            return None
        nm = (strip(children(n)[0]).get('referencedDecl') or {}).get('name')
        if nm != 'accumulate':
            return None
        args = children(n)[1:]
        cont = None
        for x in walk(args[0]):
            if x.get('kind') == 'MemberExpr' and x.get('name') in ('begin', 'cbegin'):
                cont = self.ex.resolve(children(x)[0], {}, self.f.tu)
        lam = None
        for x in walk(args[3]):
            if x.get('kind') == 'LambdaExpr':
                lam = x
        if cont is None or lam is None:
            return None
        body = [c for c in children(lam) if c.get('kind') == 'CompoundStmt']
        if not body:
            return None
        rets = [x for x in walk(body[-1]) if x.get('kind') == 'ReturnStmt']
        if len(rets) != 1:
            return None
        e = strip(children(rets[0])[0], explicit=True)
        if e.get('kind') != 'BinaryOperator' or e.get('opcode') != '+':
            return None
        term = strip(children(e)[1], explicit=True)
        cond = False
        if term.get('kind') == 'ConditionalOperator':
            c = children(term)
            z = literal_value(c[2])
            if z != 0:
                return None
            term = strip(c[1], explicit=True)
            cond = True
        if term.get('kind') != 'CXXMemberCallExpr':
            return None
        callee = strip(children(term)[0])
        if callee.get('name') not in ('length', 'size'):
            return None
        member = None
        for x in walk(callee):
            if x.get('kind') == 'MemberExpr' and x.get('name') not in ('length', 'size'):
                member = x.get('name')
                break
        if member is None:
            return None
        return Lin({'sum:size(%s[].%s)' % (cont, member): 1})


# --------------------------------------------------------------------------- helpers
def _guards_before(func, node, prog):
    """IfStmt nodes that dominate `node` in the structured body of func: previous
    siblings at every ancestor level whose then-branch leaves (throw/return)."""
    path = []

    def find(n, acc):
        if n is node:
            path.extend(acc)
            return True
        for c in children(n):
            if find(c, acc + [n]):
                return True
        return False
    find(func.body, [])
    out = []
    for anc, child in zip(path, path[1:] + [node]):
        if anc.get('kind') == 'CompoundStmt':
            for sib in children(anc):
                if sib is child:
                    break
                if sib.get('kind') == 'IfStmt':
                    c = children(sib)
                    then = c[-2] if sib.get('hasElse') else c[-1]
                    if any(x.get('kind') == 'CXXThrowExpr' for x in walk(then)):
                        out.append(sib)
    return out


def _cmp_bound(ifs, ex, tu, target, single=None):
    """Does the guard `if (target > K) throw` (or >=) bound target to <= 255?  (the condition, the length
    and the bound may each be held in a single-assignment local)"""
    single = single or {}
    cond = _expand_local(children(ifs)[0], single)
    conds = [cond]
    if cond.get('kind') == 'BinaryOperator' and cond.get('opcode') == '||':
        conds = [_expand_local(x, single) for x in children(cond)]
    for c in conds:
        if c.get('kind') != 'BinaryOperator' or c.get('opcode') not in ('>', '>='):
            continue
        l, r = children(c)
        if ex.resolve(_expand_local(l, single), {}, tu) != target:
            continue
        k = literal_value(_expand_local(r, single))
        if k is None:
            # a named constant of the file / namespace (constexpr std::size_t max_label_length = 255;)
            rr0 = strip(_expand_local(r, single), explicit=True)
            if rr0.get('kind') == 'DeclRefExpr':
                d0 = tu.ids.get((rr0.get('referencedDecl') or {}).get('id')) if hasattr(tu, 'ids') else None
                if d0 is not None and d0.get('kind') == 'VarDecl' and ('const' in (d0.get('type') or '') or d0.get('constexpr')):
                    k = literal_value(d0)
        if k is None:
            # numeric_limits<uint8_t>::max()
            rr = strip(r, explicit=True)
            if rr.get('kind') == 'CallExpr' and 'unsigned char' in (rr.get('type') or '') + \
                    str([x.get('type') for x in walk(rr)]) and \
                    any(x.get('name') == 'max' for x in walk(rr)):
                k = 255
        if isinstance(k, int) and ((c['opcode'] == '>' and k <= 255) or (c['opcode'] == '>=' and k <= 256)):
            return True
    return False


def symmetry(prog, chk, S1, grams=None):
    """S1 for every codec pair: the emission grammar of the encoder and the consumption grammar of
    the decoder agree item by item, and every stored field is written from itself (shared with C06)."""
    if grams is None:
        grams = codec.all_grammars(prog)
        if len(grams) < 11:
            raise AnalysisBroken('only %d codec pairs found' % len(grams))
    for name, ge, gd in grams:
        chk.analysed(ge.func)
        chk.analysed(gd.func)
        if ge.unknown or gd.unknown:
            chk.unknown(S1, name, 'grammar extraction incomplete: %s' % (ge.unknown + gd.unknown)[:2])
            continue
        # ---- S1
        les, lds = linearise(ge.items), linearise(gd.items)
        bad = None
        for le in les:
            msgs = []
            if not any(_sym(le, ld, name, msgs) for ld in lds):
                bad = msgs[0] if msgs else 'no decoder path matches an encoder path'
                break
        if not bad:
            # every field the decoder stores (and operator== compares) is written from that field
            # by at least one encoder path (optional-slot sentinels use it in the present arm)
            def plain_fields(lins, mentions=False):
                out = set()

                def rec(items):
                    for it in items:
                        if it[0] in ('prim', 'bytes') and is_plain(it[2]) and not it[2].startswith('size('):
                            out.add(it[2])
                        elif it[0] == 'prim' and not is_plain(it[2]) and mentions:
                            # sentinel / conditional forms mention the field they encode
                            for m in re.findall(r'[A-Za-z_][A-Za-z0-9_\[\].]*', it[2]):
                                out.add(m)
                        elif it[0] == 'repeat':
                            for body in it[2]:
                                rec(body)
                for l in lins:
                    rec(l)
                return out
            enc_plain = plain_fields(les)
            enc_f = plain_fields(les, mentions=True)
            enc_mentions = enc_f - enc_plain
            dec_f = plain_fields(lds)
            rec_ = prog.records.get(ge.func.cls)
            members = {x.get('name') for x in (rec_.fields if rec_ else [])}
            lost = sorted(f_ for f_ in dec_f if f_ not in enc_plain
                          and f_.split('.')[-1] not in enc_mentions and f_.split('.')[0].split('[')[0] not in enc_mentions
                          and not f_.startswith(('local', 'const'))
                          and f_.split('.')[0].split('[')[0] in members)
            if lost:
                bad = ('the decoder stores %s (compared by operator==) but no encoder path writes that field: '
                       'the encoder derives or substitutes the value, so a value whose field differs does not '
                       'survive the round trip' % lost)
        if ge.framing != gd.framing:
            bad = 'encoder framing %s, decoder framing %s' % (ge.framing, gd.framing)
        if bad:
            chk.violation(S1, '%s|asymmetry' % name, locstr(ge.func.node), bad,
                          facts={'encoder': ge.flat(), 'decoder': gd.flat()})
        else:
            chk.ok(S1, name, locstr(ge.func.node), detail={'encoder_paths': len(les), 'items': len(les[0])})



def fresh_elements(prog, chk, rid, min_instances=5):
    """An element appended to a result container inside a loop is built from a fresh object: either
    the local is declared inside the loop body, or every member of its record is assigned at the top
    level of the body in each iteration.  A scratch object hoisted out of the loop carries the
    members that are assigned only conditionally (a label read when its length is non-zero) from one
    element into the next."""
    n = 0
    for f in prog.functions.values():
        if f.body is None or f.is_pattern or not prog.in_repo(f.file):
            continue
        fdecls = {x.get('id'): x for x in walk(f.body) if x.get('kind') == 'VarDecl'}
        for lp in walk(f.body):
            if lp.get('kind') not in ('ForStmt', 'WhileStmt', 'DoStmt', 'CXXForRangeStmt'):
                continue
            body = children(lp)[0] if lp['kind'] == 'DoStmt' else children(lp)[-1]
            inner = {x.get('id') for x in walk(body) if x.get('kind') == 'VarDecl'}
            for x in walk(body):
                if not (x.get('kind') == 'CXXMemberCallExpr' and strip(children(x)[0]).get('name') in (
                        'push_back', 'emplace_back', 'push_front', 'emplace_front')):
                    continue
                for a in children(x)[1:]:
                    r = strip(a, explicit=True)
                    while r.get('kind') in ('CXXConstructExpr', 'MaterializeTemporaryExpr', 'CXXBindTemporaryExpr',
                                            'ImplicitCastExpr') and len(children(r)) == 1:
                        r = strip(children(r)[0], explicit=True)
                    if r.get('kind') == 'CallExpr' and len(children(r)) > 1 and \
                            (strip(children(r)[0]).get('referencedDecl') or {}).get('name') == 'move':
                        r = strip(children(r)[1], explicit=True)
                    if r.get('kind') != 'DeclRefExpr':
                        continue
                    vid = (r.get('referencedDecl') or {}).get('id')
                    d = fdecls.get(vid)
                    if d is None:
                        continue
                    rec = prog.records.get(program.norm_type_name(d.get('type') or ''))
                    if rec is None or not rec.fields:
                        continue
                    n += 1
                    short = '::'.join((f.qualname or '').split('::')[-2:])
                    inst = '%s: element %s appended at %s is built afresh in each iteration' % (short, d.get('name'), locstr(x))
                    if vid in inner:
                        chk.ok(rid, inst, locstr(x))
                        continue
                    # declared outside the loop: members assigned unconditionally per iteration
                    assigned = set()
                    top = children(body) if body.get('kind') == 'CompoundStmt' else [body]
                    # ... or the whole object re-assigned at the top level of the body (`x = T{};`)
                    whole = False
                    for st in top:
                        y = strip(st)
                        lhs = None
                        if y.get('kind') == 'BinaryOperator' and y.get('opcode') == '=':
                            lhs = strip(children(y)[0])
                        elif y.get('kind') == 'CXXOperatorCallExpr' and len(children(y)) > 2 and \
                                (strip(children(y)[0]).get('referencedDecl') or {}).get('name') == 'operator=':
                            lhs = strip(children(y)[1])
                        if lhs is not None and lhs.get('kind') == 'DeclRefExpr' and \
                                (lhs.get('referencedDecl') or {}).get('id') == vid:
                            whole = True
                    if whole:
                        chk.ok(rid, inst + ' (declared outside the loop, re-assigned as a whole in each iteration)', locstr(x))
                        continue
                    for st in top:
                        if st.get('kind') in ('IfStmt', 'ForStmt', 'WhileStmt', 'DoStmt', 'SwitchStmt', 'CXXTryStmt'):
                            continue
                        for y in walk(st):
                            if y.get('kind') == 'MemberExpr':
                                b = strip(children(y)[0]) if children(y) else {}
                                if b.get('kind') == 'DeclRefExpr' and (b.get('referencedDecl') or {}).get('id') == vid:
                                    assigned.add(y.get('name'))
                    missing = [fd.get('name') for fd in rec.fields if fd.get('name') not in assigned]
                    if not missing:
                        chk.ok(rid, inst + ' (declared outside the loop, every member touched unconditionally)', locstr(x))
                    else:
                        chk.violation(rid, '%s|%s carried across iterations' % (short, d.get('name')), locstr(d),
                                      '%s: %s is declared outside the loop that appends it and member(s) %s are not '
                                      'assigned unconditionally in each iteration: an element keeps what the '
                                      'previous element stored there, so decode(encode(x)) differs from x' % (
                                          short, d.get('name'), missing))
    if n < min_instances:
        chk.fail_broken('%s: only %d loop-appended element object(s) found (expected >= %d)' % (rid, n, min_instances))


def absence_tests(prog, chk, rid, min_instances=8):
    """Where a decoder or read conversion chooses between a value and 'absent' (std::nullopt) by
    comparing a stored number with a constant, the comparison is an equality with that one reserved
    constant.  An ordering test (`offset >= 0` for `offset != -1`) turns every value on the wrong
    side into 'absent', although the encoder stores it."""
    def is_nullopt(n):
        return any(x.get('kind') == 'DeclRefExpr' and (x.get('referencedDecl') or {}).get('name') == 'nullopt'
                   for x in walk(n))

    def const_side(n):
        r = strip(n, explicit=True)
        if literal_value(r) is not None:
            return True
        if r.get('kind') == 'UnaryOperator' and children(r) and literal_value(strip(children(r)[0])) is not None:
            return True
        ref = r.get('referencedDecl') or {}
        return ref.get('kind') == 'VarDecl' and 'const' in (r.get('type') or '') and \
            not any(True for _ in [0] if ref.get('name', '').islower() and False)

    def rel_ops(cond):
        out = []
        for x in walk(cond):
            if x.get('kind') == 'BinaryOperator' and x.get('opcode') in ('<', '<=', '>', '>=', '==', '!='):
                a, b = children(x)
                ta = strip(a, explicit=True).get('type') or ''
                tb = strip(b, explicit=True).get('type') or ''
                if 'optional' in ta or 'optional' in tb or 'iterator' in ta or 'iterator' in tb:
                    continue
                if const_side(a) != const_side(b):
                    out.append((x.get('opcode'), x))
        return out
    n = 0
    for f in prog.functions.values():
        if f.body is None or f.is_pattern or not prog.in_repo(f.file):
            continue
        for x in walk(f.body):
            cond = None
            if x.get('kind') == 'ConditionalOperator':
                c = children(x)
                if is_nullopt(c[1]) != is_nullopt(c[2]):
                    cond = c[0]
            elif x.get('kind') == 'IfStmt':
                c = children(x)
                if len(c) == 3 and is_nullopt(c[1]) != is_nullopt(c[2]):
                    cond = c[0]
            if cond is None:
                continue
            ops = rel_ops(cond)
            if not ops:
                continue
            n += 1
            short = '::'.join((f.qualname or '').split('::')[-2:])
            inst = '%s: value-or-absent choice at %s tests %s' % (short, locstr(x), ', '.join(o for o, _ in ops))
            bad = [o for o, _ in ops if o not in ('==', '!=')]
            if not bad:
                chk.ok(rid, inst + ' (equality with the reserved constant)', locstr(x))
            else:
                chk.violation(rid, '%s|absence decided by an ordering test' % short, locstr(x),
                              '%s: an ordering comparison (%s) with a constant decides between a value and '
                              '"absent": every stored value on the other side of the constant reads back as absent, '
                              'not only the one reserved encoding' % (inst, ', '.join(bad)))
    if n < min_instances:
        chk.fail_broken('%s: only %d value-or-absent choice(s) on a constant found (expected >= %d)' % (rid, n, min_instances))


def trailing_data_accepted(prog, chk, rid, grams):
    """A codec whose struct carries trailing bytes (a member the encoder appends verbatim and the
    decoder fills from whatever remains) must accept every length its encoder produces.  The
    decoder is interpreted abstractly (cursor / interval domain of C05): if the number of bytes it can
    ever hand to that member is provably 0 - an exact-length test rejects everything longer - then
    decode(encode(x)) throws for every x whose trailing member is not empty."""
    from .. import absint
    n = 0
    for name, ge, gd in grams:
        enc_extra = [it for it in linearise(ge.items)[0] if it[0] == 'bytes' and is_plain(it[2])
                     and 'extra' in it[2]] if not ge.unknown else []
        if not enc_extra:
            continue
        it_ = absint.Interp(prog, inline=lambda g: not g.name.startswith('zlib_'))
        it_.analyse(gd.func)
        rems = getattr(it_, 'extra_rem', [])
        n += 1
        # a decoder cannot know how many trailing bytes there are, so a test that requires the total
        # (or remaining) length to EQUAL something leaves no room for them: only lower bounds are
        # compatible with a trailing-bytes member
        exact_tests = []
        for x in walk(gd.func.body):
            if x.get('kind') != 'IfStmt' or len(children(x)) < 2:
                continue
            if not any(y.get('kind') == 'CXXThrowExpr' for y in walk(children(x)[1])):
                continue
            for y in walk(children(x)[0]):
                if y.get('kind') == 'BinaryOperator' and y.get('opcode') == '!=':
                    ops = children(y)
                    def is_len(e):
                        for z in walk(e):
                            if z.get('kind') == 'BinaryOperator' and z.get('opcode') == '-' and \
                                    all('*' in (strip(w).get('type') or '') for w in children(z)):
                                return True
                            if z.get('kind') == 'CXXMemberCallExpr' and strip(children(z)[0]).get('name') == 'size':
                                return True
                        return False
                    if is_len(ops[0]) or is_len(ops[1]):
                        exact_tests.append(y)
        if exact_tests:
            chk.violation(rid, '%s|trailing data never accepted' % name, locstr(exact_tests[0]),
                          '%s: the encoder appends %s verbatim, but the decoder rejects every input whose length '
                          'differs from an exact value (test at %s): a value with non-empty %s encodes and its '
                          'encoding is rejected by its own decoder' % (name, enc_extra[0][2], locstr(exact_tests[0]),
                                                                      enc_extra[0][2]))
            continue
        inst = '%s: the decoder can receive trailing bytes for %s (remaining at that point: %s)' % (
            name, enc_extra[0][2], sorted({(lo, hi) for lo, hi, _ in rems})[:3])
        if not rems:
            chk.unknown(rid, name, 'the encoder appends %s but no decode_extra call was interpreted in the decoder' % enc_extra[0][2])
        elif all(lo == 0 and hi == 0 for lo, hi, _ in rems):
            chk.violation(rid, '%s|trailing data never accepted' % name, locstr(gd.func.node),
                          '%s: not so - on every path that reaches it the remaining length is exactly 0 (an '
                          'exact-length test rejects anything longer), while the encoder appends the member '
                          'verbatim: a value with non-empty %s encodes but its encoding is rejected by the '
                          'decoder' % (inst, enc_extra[0][2]))
        else:
            chk.ok(rid, inst, locstr(gd.func.node))
    return n


def extent(prog, ex, chk, S3, name, ge):
    """S3 for one encoder: bytes written (linear form) == bytes allocated (shared with C15-U4)."""
    if ge.alloc is None:
        chk.unknown(S3, name, 'allocation expression not found')
    else:
        w, problems = written(ge.items)
        a = AllocEval(ex, ge.func).ev(ge.alloc)
        if a is None:
            chk.unknown(S3, name, 'allocation expression at %s is outside the modelled subset'
                        % locstr(ge.alloc))
        else:
            wn = _norm(w)
            an = _norm(a)
            if wn == an and not problems:
                chk.ok(S3, '%s: writes %s = allocates %s' % (name, wn.show(), an.show()),
                       locstr(ge.alloc))
            else:
                guard = _size_guard(ge.func, ge.alloc_var, ex, wn, an)
                if guard and not problems:
                    chk.ok(S3, '%s: writes %s, allocates %s, equal under guard %s' % (
                        name, wn.show(), an.show(), guard), locstr(ge.alloc))
                else:
                    chk.violation(S3, '%s|extent' % name, locstr(ge.alloc),
                                  '%s::%s writes %s byte(s) but allocates %s%s: a value for which '
                                  'these differ is written past the buffer or leaves garbage at '
                                  'its end' % (_short(ge.func.cls or ''), ge.func.name, wn.show(),
                                               an.show(), ('; ' + '; '.join(problems)) if problems else ''),
                                  facts={'written': wn.show(), 'allocated': an.show()})


def _single_assignment_locals(g):
    """id -> initialiser of the locals of g that are initialised once and never assigned again (const objects,
    references, and variables no statement of g writes)."""
    out = {}
    written = set()
    for n in walk(g.body):
        k = n.get('kind')
        tgt = None
        if k in ('BinaryOperator', 'CompoundAssignOperator') and (n.get('opcode') or '').endswith('=') and \
                n.get('opcode') not in ('==', '!=', '<=', '>='):
            tgt = strip(children(n)[0], explicit=True)
        elif k == 'UnaryOperator' and n.get('opcode') in ('++', '--'):
            tgt = strip(children(n)[0], explicit=True)
        if tgt is not None and tgt.get('kind') == 'DeclRefExpr':
            written.add((tgt.get('referencedDecl') or {}).get('id'))
    for n in walk(g.body):
        if n.get('kind') == 'VarDecl' and n.get('id') not in written:
            init = [x for x in children(n) if not x['kind'].endswith('Attr') and not x['kind'].endswith('Comment')]
            if init:
                out[n['id']] = init[-1]
    return out


def _value_rejections(prog, cg, f, encoder_side=False):
    """(kind, node) for throws of f and the repository functions it calls whose condition tests decoded
    VALUES rather than the bytes available: 'count' = an integer compared with a literal other than
    a length test, 'order' = element i compared with element i-1 (or i+1)."""
    out = []
    seen = set()
    work = [f]
    while work:
        g = work.pop()
        if g.key in seen or g.body is None:
            continue
        seen.add(g.key)
        for e in cg.edges(g):
            for t in e.targets:
                if t.body is not None and prog.in_repo(t.file) and ('performance_data_format' in (t.file or '') or
                                                                       '/v2/' in (t.file or '')) and t.cls is None:
                    work.append(t)
        decls = _single_assignment_locals(g)

        def xwalk(node, depth=0):
            # the expression with named sub-expressions (const / reference locals, flags) written out
            for z in walk(node):
                yield z
                if z.get('kind') == 'DeclRefExpr' and depth < 3:
                    d = decls.get((z.get('referencedDecl') or {}).get('id'))
                    if d is not None:
                        for w in xwalk(d, depth + 1):
                            yield w
        for x in walk(g.body):
            if x.get('kind') != 'IfStmt' or len(children(x)) < 2:
                continue
            if not any(y.get('kind') == 'CXXThrowExpr' for y in walk(children(x)[1])):
                continue
            cond = children(x)[0]
            ptrish = any(('*' in (y.get('type') or '') and y.get('kind') in ('DeclRefExpr', 'ImplicitCastExpr'))
                         for y in walk(cond))
            seen_cmp = set()
            # std::adjacent_find(first, last, pred): pred is applied to every pair of neighbouring elements
            neighbours = any(z.get('kind') == 'CallExpr' and
                             (strip(children(z)[0]).get('referencedDecl') or {}).get('name') == 'adjacent_find'
                             for z in xwalk(cond))
            for y in xwalk(cond):
                if y.get('kind') != 'BinaryOperator' or y.get('opcode') not in ('<', '<=', '>', '>=', '==', '!='):
                    continue
                if id(y) in seen_cmp:
                    continue
                seen_cmp.add(id(y))
                a, b = children(y)
                if neighbours and y.get('opcode') in ('<', '<=', '>', '>='):
                    pa = {(z.get('referencedDecl') or {}).get('id') for z in walk(a)
                          if z.get('kind') == 'DeclRefExpr' and (z.get('referencedDecl') or {}).get('kind') == 'ParmVarDecl'}
                    pb = {(z.get('referencedDecl') or {}).get('id') for z in walk(b)
                          if z.get('kind') == 'DeclRefExpr' and (z.get('referencedDecl') or {}).get('kind') == 'ParmVarDecl'}
                    if pa and pb and pa != pb:
                        out.append(('order', y, g))     # a member of one neighbour against a member of the other
                        continue
                subs = [z for z in xwalk(y) if z.get('kind') in ('CXXOperatorCallExpr', 'ArraySubscriptExpr')]
                idx = []
                for z in subs:
                    c = children(z)
                    if z.get('kind') == 'CXXOperatorCallExpr' and \
                            (strip(c[0]).get('referencedDecl') or {}).get('name') == 'operator[]' and len(c) > 2:
                        idx.append(strip(c[2], explicit=True))
                if len(idx) >= 2 and any(i.get('kind') == 'BinaryOperator' and i.get('opcode') in ('-', '+') for i in idx) \
                        and y.get('opcode') in ('<', '<=', '>', '>='):
                    out.append(('order', y, g))
                elif not ptrish and (_const_int(prog, g, b) is not None) != \
                        (_const_int(prog, g, a) is not None) and (
                            y.get('opcode') in ('<', '>', '<=', '>=') or (encoder_side and y.get('opcode') in ('==', '!='))):
                    lit = _const_int(prog, g, b)
                    lit = lit if lit is not None else _const_int(prog, g, a)
                    other = a if _const_int(prog, g, b) is not None else b
                    ot = (strip(other, explicit=True).get('type') or '')
                    oo = strip(other, explicit=True)
                    # a decoded integer held in a local (not the size of a buffer), against a positive
                    # constant: `count < 2`, `count > 32768`; `n < 0` cannot come from an encoder
                    is_size = oo.get('kind') == 'CXXMemberCallExpr' and \
                        strip(children(oo)[0]).get('name') in ('size', 'length')
                    wide = 'long' in ot or 'int64' in ot or 'size_t' in ot or 'size_type' in ot
                    if isinstance(lit, int) and not isinstance(lit, bool) and lit > 0 and wide and (
                            (oo.get('kind') == 'DeclRefExpr' and (oo.get('referencedDecl') or {}).get('kind') == 'VarDecl')
                            or (encoder_side and is_size)):
                        out.append(('count', y, g))
    return out


def _const_int(prog, g, n):
    """Integer value of a literal or of a constant (constexpr / const variable with a literal initialiser)."""
    n = strip(n, explicit=True)
    v = literal_value(n)
    if isinstance(v, int) and not isinstance(v, bool):
        return v
    if n.get('kind') == 'DeclRefExpr':
        d = g.tu.ids.get((n.get('referencedDecl') or {}).get('id'))
        if d is not None and d.get('kind') == 'VarDecl' and ('const' in (d.get('type') or '') or d.get('constexpr')):
            c = [x for x in children(d) if not x['kind'].endswith('Attr')]
            if c:
                return _const_int(prog, g, c[-1])
    return None


def _count_gap(prog, dec, enc):
    """A positive count the decoder's value tests reject and the encoder's accept, or None.  Each test is
    `x <op> K` (or `K <op> x`) guarding a throw; evaluated at every K - 1, K, K + 1."""
    def tests(lst):
        out = []
        for _, y, g in lst:
            a, b = children(y)
            ka, kb = _const_int(prog, g, a), _const_int(prog, g, b)
            op = y.get('opcode')
            if kb is not None and ka is None:
                out.append((op, kb))
            elif ka is not None and kb is None:
                out.append(({'<': '>', '>': '<', '<=': '>=', '>=': '<='}.get(op, op), ka))
        return out

    def rejects(ts, v):
        for op, k in ts:
            if (op == '<' and v < k) or (op == '<=' and v <= k) or (op == '>' and v > k) or \
                    (op == '>=' and v >= k) or (op == '==' and v == k) or (op == '!=' and v != k):
                return True
        return False
    td, te = tests(dec), tests(enc)
    if not td or not te:
        return None
    pts = sorted({k + d_ for _, k in td + te for d_ in (-1, 0, 1)})
    for v in pts:
        if v >= 1 and rejects(td, v) and not rejects(te, v):
            return v
    return None


def domain_symmetry(prog, chk, rid, grams):
    """What a decoder rejects on the VALUES it has decoded (a marker count outside [2, 32768],
    markers that are not strictly increasing) the encoder of the same codec must refuse to write:
    otherwise an accepted value is stored in a form that can no longer be decoded.  Per codec and
    kind of value test ('count', 'order'): the encoder side has a throwing test of the same kind."""
    from .. import callgraph
    cg = callgraph.get(prog)
    n = 0
    for name, ge, gd in grams:
        dec = _value_rejections(prog, cg, gd.func)
        enc = _value_rejections(prog, cg, ge.func, encoder_side=True)
        for kind in ('count', 'order'):
            d = [x for x in dec if x[0] == kind]
            if not d:
                continue
            n += 1
            e = [x for x in enc if x[0] == kind]
            inst = '%s: the decoder rejects on %d %s test(s) (first at %s), the encoder applies %d' % (
                name, len(d), kind, locstr(d[0][1]), len(e))
            witness = _count_gap(prog, d, e) if kind == 'count' and e else None
            if e and witness is None:
                chk.ok(rid, inst, locstr(d[0][1]))
            elif e:
                chk.violation(rid, '%s|count %d rejected by the decoder, written by the encoder' % (name, witness),
                              locstr(d[0][1]),
                              '%s: the two sides do not draw the same line - a count of %d fails a decoder test (%s) and '
                              'passes every encoder test (%s): the encoder stores a value its own decoder refuses, and a '
                              'blob of an independent encoder with that count is refused as well' % (
                                  inst, witness, ', '.join(locstr(x[1]) for x in d), ', '.join(locstr(x[1]) for x in e)))
            else:
                chk.violation(rid, '%s|decoder rejects by %s, encoder does not' % (name, kind), locstr(d[0][1]),
                              '%s: a value that fails the decoder\'s %s test (%s in %s) is encoded without any test '
                              'and stored; decoding it throws, so the value is written in a form that cannot be '
                              'decoded' % (inst, kind, locstr(d[0][1]), d[0][2].qualname))
    return n


def run(tier='quick'):
    prog = program.load()
    chk = Check('C03', tier)
    chk.units = len(prog.tus)
    S1 = chk.rule('S1', 'for each of the 11 codecs the emission grammar of the encoder and the '
                        'consumption grammar of the decoder (both read from the AST, helpers inlined) '
                        'agree item by item: primitive kind, logical field, repeat count source, byte '
                        'runs', floor=11)
    S2 = chk.rule('S2', 'a container length narrowed into a one-byte wire field is dominated by a range '
                        'guard that throws (a label longer than 255 bytes must be rejected, not written '
                        'with a truncated length)', floor=4)
    S3 = chk.rule('S3', 'extent equation: the number of bytes an encoder writes, as a linear form in '
                        'container sizes and label lengths, equals the size it allocated - for all values, '
                        'or under a dominating guard that throws otherwise', floor=11)
    S4 = chk.rule('S4', 'the constant that encodes an absent optional is not a legal present value: '
                        'enum-typed fields are compared with every enumerator; the -1 empty-slot offsets '
                        'are the reserved encodings the property names; numeric 0-is-unknown conventions '
                        'are an enumerated table', floor=6)
    S5 = chk.rule('S5', 'every write path of the 1.x PerformanceData blobs applies the '
                        'decode-after-encode guard (or the codec guards itself)', floor=2)
    S6 = chk.rule('S6', 'the shared compressor emits one complete deflate stream for every payload size '
                        '(all input fed, last call with Z_FINISH, pending output never dropped) and the '
                        'decompressor never drops pending output: finite evaluation of the chunk loops',
                  floor=15)
    chk.assume('zlib inflate(deflate(x)) == x; memcpy of a double preserves its bit pattern (C02-L1)')

    ex = codec.Extractor(prog)
    grams = codec.all_grammars(prog)
    if len(grams) < 11:
        raise AnalysisBroken('only %d codec pairs found' % len(grams))
    symmetry(prog, chk, S1, grams)
    absence_tests(prog, chk, S4)
    S9 = chk.rule('S9', 'what a decoder rejects on decoded values (repeat counts against constants, ordering of '
                        'neighbouring elements) the encoder of the codec refuses to write', floor=2)
    domain_symmetry(prog, chk, S9, grams)
    S8 = chk.rule('S8', 'a codec that appends trailing bytes accepts on decode every length its encoder produces',
                  floor=3)
    trailing_data_accepted(prog, chk, S8, grams)
    S7 = chk.rule('S7', 'every element a decoder (or conversion loop) appends to its result is built from a fresh '
                        'object in that iteration: no member survives from the previous element', floor=5)
    fresh_elements(prog, chk, S7)
    for name, ge, gd in grams:
        chk.analysed(ge.func)
        chk.analysed(gd.func)
        if ge.unknown or gd.unknown:
            continue
        extent(prog, ex, chk, S3, name, ge)
        # ---- S2
        _narrowing(prog, ex, chk, S2, name, ge.func)
        # ---- S4
        _sentinels(prog, ex, chk, S4, name, ge, gd)

    _sibling_guard(prog, chk, S5)
    # S6: the shared framing functions, which nine of the eleven codecs go through
    from . import c02
    zc = prog.func(ENG + 'zlib_compress')
    zu = prog.func(ENG + 'zlib_uncompress')
    chk.analysed(zc)
    chk.analysed(zu)
    try:
        c02._deflate_complete(prog, chk, S6, zc)
        c02._pending_output(prog, chk, S6, zc, 'deflate')
        c02._pending_output(prog, chk, S6, zu, 'inflate')
    except AnalysisBroken as e:
        chk.fail_broken('S6: %s' % e)
    from . import extra
    S10 = chk.rule('S10', 'the fixed-width primitives every codec is built from are exact for every value: byte i at the bit '
                          'position its byte order prescribes, 64-bit values from two 32-bit halves by shifts 0 and 32 with no '
                          'sign extension or rounding of a half (rule L1 of C02)', floor=14)
    extra.primitives_exact(prog, chk, S10)
    S11 = chk.rule('S11', 'the decompressor returns exactly the bytes inflate() produced: the result is sized from the '
                          'stream\'s output counters, or a test of them guards a throw (not from the length prefix alone)',
                   floor=1)
    extra.inflated_length_is_result_length(prog, chk, S11)
    S12 = chk.rule('S12', 'a byte taken from a blob means 0..255: no (signed) char read through a pointer is widened without '
                          'going through an unsigned 8-bit type', floor=1)
    extra.bytes_read_unsigned(prog, chk, S12)
    return chk.finish('grammar extraction for %d encoder/decoder pairs from the clang AST; symbolic '
                      'extent computation; dominance of range guards; enumerator comparison for '
                      'sentinel constants' % len(grams))


def _norm(l):
    """n:size(X) and size(X) name the same count when X is a record container."""
    return Lin(l)


def _size_guard(func, alloc_var, ex, w, a):
    """A guard `if (C.size() != K) throw` before the allocation under which w == a."""
    diff = w.add(a, -1)
    syms = [s for s in diff if s != '']
    if len(syms) != 1 or not syms[0].startswith('n:size('):
        return None
    s = syms[0]
    coeff, const = diff[s], diff.get('', 0)
    if coeff == 0 or (-const) % coeff:
        return None
    k = (-const) // coeff
    cont = s[len('n:'):]
    for g in _guards_before(func, alloc_var, None):
        cond = strip(children(g)[0], explicit=True)
        if cond.get('kind') == 'BinaryOperator' and cond.get('opcode') == '!=':
            l, r = children(cond)
            if ex.resolve(l, {}, func.tu) == cont and literal_value(r) == k:
                return '%s == %d' % (cont, k)
    return None


def _emit_helpers(ex, f, seen=None):
    """f and the repository helpers it hands its output cursor to (transitively)."""
    seen = seen if seen is not None else {}
    if f.key in seen or f.body is None:
        return seen
    seen[f.key] = f
    for n in ex._encode_calls(f.body, f.tu):
        if ex._emit_kind(n, f.tu) == 'helper':
            cf = ex.repo_function(ex.callee(n, f.tu)[0], f.tu)
            if cf is not None:
                _emit_helpers(ex, cf, seen)
    return seen


def _expand_local(node, single):
    """The expression a single-assignment local stands for (named length, named flag)."""
    n = strip(node, explicit=True)
    for _ in range(4):
        if n.get('kind') != 'DeclRefExpr':
            break
        init = single.get((n.get('referencedDecl') or {}).get('id'))
        if init is None:
            break
        n = strip(init, explicit=True)
    return n


def _call_sites(prog, g):
    """([(caller, call node)], escapes) for repository function g: every call of g in the repository; escapes =
    g is also named where it is not called (its address is taken, it is bound to a std::function, ...), so its
    callers cannot be listed."""
    from .. import callgraph
    cache = prog.__dict__.setdefault('_c03_call_sites', {})
    if g.key not in cache:
        cg = callgraph.get(prog)
        sites, escapes, seen = [], False, set()
        for h in prog.functions.values():
            if h.body is None or not prog.in_repo(h.file):
                continue
            # mentions of a function of that name and type (overloads of the name with another type are not g)
            named = [x for x in walk(h.node)
                     if (x.get('kind') == 'DeclRefExpr' and (x.get('referencedDecl') or {}).get('name') == g.name
                         and (x.get('referencedDecl') or {}).get('kind') in ('FunctionDecl', 'CXXMethodDecl')
                         and (x.get('referencedDecl') or {}).get('type') == g.type)
                     or (x.get('kind') == 'MemberExpr' and g.cls is not None and x.get('name') == g.name)]
            if not named:
                continue
            mine = 0
            for e in cg.edges(h):
                if g in e.targets and e.node.get('kind') in ('CallExpr', 'CXXMemberCallExpr'):
                    mine += 1
                    if locstr(e.node) not in seen:
                        seen.add(locstr(e.node))
                        sites.append((h, e.node))
            if len(named) > mine:
                escapes = True      # (for a member function: any member of that name counts - conservative)
        cache[g.key] = (sites, escapes)
    return cache[g.key]


def _root_param(g, obj):
    """The parameter of g that the object expression `obj` (p, p.m, p.m.n, p->m) is rooted at, if g never
    assigns it; None otherwise."""
    e = strip(obj, explicit=True)
    while e.get('kind') == 'MemberExpr' and children(e):
        e = strip(children(e)[0], explicit=True)
    if e.get('kind') != 'DeclRefExpr' or (e.get('referencedDecl') or {}).get('kind') != 'ParmVarDecl':
        return None
    pid = e['referencedDecl'].get('id')
    idx = [i for i, p_ in enumerate(g.params) if p_.get('id') == pid]
    if not idx:
        return None
    for x in walk(g.body):
        k = x.get('kind')
        tgt = None
        if k in ('BinaryOperator', 'CompoundAssignOperator') and (x.get('opcode') or '').endswith('=') \
                and x.get('opcode') not in ('==', '!=', '<=', '>='):
            tgt = children(x)[0]
        elif k == 'CXXOperatorCallExpr' and len(children(x)) > 1 and \
                ((strip(children(x)[0]).get('referencedDecl') or {}).get('name') or '').endswith('='):
            tgt = children(x)[1]
        if tgt is not None:
            t = strip(tgt, explicit=True)
            while t.get('kind') == 'MemberExpr' and children(t):
                t = strip(children(t)[0], explicit=True)
            if t.get('kind') == 'DeclRefExpr' and (t.get('referencedDecl') or {}).get('id') == pid:
                return None
    return idx[0]


def _base_of(a):
    """One step from a member access / dereference to the object it is made on: x.m -> x, p->m -> p (smart pointer
    and std::optional included: operator->, operator*, value()), or None."""
    a = strip(a, explicit=True)
    k = a.get('kind')
    c = children(a)
    if k == 'MemberExpr' and c:
        return strip(c[0], explicit=True)
    if k == 'CXXOperatorCallExpr' and len(c) == 2 and \
            (strip(c[0]).get('referencedDecl') or {}).get('name') in ('operator->', 'operator*'):
        return strip(c[1], explicit=True)
    if k == 'UnaryOperator' and a.get('opcode') == '*' and c:
        return strip(c[0], explicit=True)
    if k == 'CXXMemberCallExpr' and len(c) == 1 and strip(c[0]).get('name') in ('value', 'get') and children(strip(c[0])):
        return strip(children(strip(c[0]))[0], explicit=True)
    return None


def _is_place(a):
    """a names an object (variable, member of one, element reached by a reference): what a guard written before
    the call tested is the very value the call passes."""
    a = strip(a, explicit=True)
    while _base_of(a) is not None:
        a = _base_of(a)
    return a.get('kind') in ('DeclRefExpr', 'CXXThisExpr')


def _unchanged_between(h, guard, call, arg):
    """No statement of h between `guard` and `call` (siblings of the guard, up to the one holding the call) assigns
    the object `arg` names or calls a non-const member on it."""
    root = strip(arg, explicit=True)
    names = []
    while _base_of(root) is not None:
        names.append(root.get('name'))
        root = _base_of(root)
    rid = (root.get('referencedDecl') or {}).get('id') if root.get('kind') == 'DeclRefExpr' else None

    def same_root(e):
        e = strip(e, explicit=True)
        while _base_of(e) is not None:
            e = _base_of(e)
        if rid is None:
            return e.get('kind') == 'CXXThisExpr'
        return e.get('kind') == 'DeclRefExpr' and (e.get('referencedDecl') or {}).get('id') == rid

    def holds(n, x):
        return any(y is x for y in walk(n))
    for blk in walk(h.body):
        if blk.get('kind') != 'CompoundStmt':
            continue
        st = children(blk)
        gi = [i for i, x in enumerate(st) if x is guard]
        if not gi:
            continue
        for x in st[gi[0] + 1:]:
            last = holds(x, call)
            for y in walk(x):
                if y is call:
                    break
                k = y.get('kind')
                tgt = None
                if k in ('BinaryOperator', 'CompoundAssignOperator') and (y.get('opcode') or '').endswith('=') \
                        and y.get('opcode') not in ('==', '!=', '<=', '>='):
                    tgt = children(y)[0]
                elif k == 'CXXOperatorCallExpr' and len(children(y)) > 1 and \
                        ((strip(children(y)[0]).get('referencedDecl') or {}).get('name') or '').endswith('=') and \
                        (strip(children(y)[0]).get('referencedDecl') or {}).get('name') not in ('operator==', 'operator!=', 'operator<=', 'operator>='):
                    tgt = children(y)[1]
                elif k == 'CXXMemberCallExpr':
                    callee = strip(children(y)[0])
                    if children(callee) and 'const' not in (callee.get('type') or '').split(')')[-1] and \
                            callee.get('name') not in ('length', 'size', 'empty', 'data', 'c_str', 'begin', 'end',
                                                       'cbegin', 'cend', 'value', 'has_value'):
                        tgt = children(callee)[0]
                if tgt is not None and same_root(tgt):
                    return False
            if last:
                return True
        return True
    return True


def _caller_guarantees(prog, ex, g, inner, depth=0):
    """The length narrowed in helper g is taken from (a member of) a parameter of g and g itself does not test it:
    the test is then a precondition g relies on.  It holds if g is internal to the library (defined outside the
    public headers, never passed around by address), and at EVERY call of g a guard that throws bounds the
    length of the very object passed - in the caller, before the call, with the object left alone in between -
    or the caller in turn receives the object as a parameter and all of its callers guarantee it.
    -> (ok sites [(caller, call)], failing sites [(caller, call, reason)]); (None, reason) if not applicable."""
    callee = strip(children(inner)[0])
    obj = children(callee)[0] if children(callee) else None
    if obj is None:
        return None, 'the length is not taken from an object'
    pi = _root_param(g, obj)
    if pi is None:
        return None, 'the length is not taken from a parameter that the helper leaves unassigned'
    if '/include/' in (g.file or ''):
        return None, 'the helper is declared in a public header: code outside the library can call it'
    sites, escapes = _call_sites(prog, g)
    if escapes:
        return None, 'the address of the helper is taken: its callers cannot be listed'
    if not sites:
        return None, 'no call of the helper was found'
    ok, bad = [], []
    for h, call in sites:
        args = [a for a in children(call)[1:]]
        if call.get('kind') not in ('CallExpr', 'CXXMemberCallExpr') or pi >= len(args) or \
                args[pi].get('kind') == 'CXXDefaultArgExpr':
            bad.append((h, call, 'the argument for the parameter could not be identified'))
            continue
        arg = args[pi]
        if not _is_place(arg):
            bad.append((h, call, 'the argument is a computed value, not an object a guard before the call could have tested'))
            continue
        single = program.single_assignment_locals(h.node)
        target = ex.resolve(inner, {g.params[pi]['id']: ex.resolve(arg, {}, h.tu)}, g.tu)
        guards = [gd_ for gd_ in _guards_before(h, call, prog) if _cmp_bound(gd_, ex, h.tu, target, single)]
        guards = [gd_ for gd_ in guards if _unchanged_between(h, gd_, call, arg)]
        if guards:
            ok.append((h, call, target))
            continue
        # the caller passes on (a member of) its own parameter: its callers have to guarantee it
        hp = _root_param(h, arg) if h.body is not None else None
        if hp is not None and depth < 3 and h is not g:
            inner2 = {'kind': 'CXXMemberCallExpr', 'type': inner.get('type'),
                      'inner': [{'kind': 'MemberExpr', 'name': callee.get('name'), 'inner': [arg]}]}
            sub_ok, sub_bad = _caller_guarantees(prog, ex, h, inner2, depth + 1)
            if sub_ok is not None and not sub_bad:
                ok.append((h, call, target))
                continue
            if sub_ok is not None:
                bad.extend(sub_bad)
                continue
        bad.append((h, call, 'no guard that throws bounds %s before the call' % target))
    return ok, bad


def _all_chains(prog, ex):
    """Keys of the encoders of all codecs and of the helpers they hand their cursor to."""
    c = prog.__dict__.get('_c03_all_chains')
    if c is None:
        c = set()
        for _, e, _d in codec.PAIRS:
            try:
                c |= set(_emit_helpers(ex, prog.func(e)))
            except (KeyError, AnalysisBroken):
                pass
        prog.__dict__['_c03_all_chains'] = c
    return c


def _narrowing(prog, ex, chk, S2, name, f):
    """Every conversion of a container length (x.length() / x.size()) to a type of at most eight
    bits - explicit cast or implicit narrowing, wherever it stands (argument of encode_uint8,
    initialiser of a local, in the encoder or in a helper the encoder hands its cursor to; the length
    possibly held in a named local) - is an obligation: a dominating guard on the UN-narrowed length
    (`if (x.length() > 255) throw`) must bound it.  A test on the narrowed value proves nothing.
    In a helper that narrows the length of an object it is handed, the guard may instead stand in the
    callers: in every one of them, before the call, on the object passed (see _caller_guarantees)."""
    def small(t):
        t = (t or '').replace('const ', '').strip()
        return t in ('uint8_t', 'unsigned char', 'char', 'signed char', 'int8_t', 'std::byte', 'uint_least8_t')
    seen = set()
    for g in _emit_helpers(ex, f).values():
        single = program.single_assignment_locals(g.node)
        for n in walk(g.body):
            k = n.get('kind')
            if k not in ('CXXStaticCastExpr', 'CStyleCastExpr', 'CXXFunctionalCastExpr', 'ImplicitCastExpr'):
                continue
            if not small(n.get('dtype') or n.get('type')):
                continue
            c = children(n)
            if len(c) != 1:
                continue
            inner = _expand_local(c[0], single)
            if inner.get('kind') != 'CXXMemberCallExpr':
                continue
            callee = strip(children(inner)[0])
            if callee.get('name') not in ('length', 'size'):
                continue
            if (id(inner), id(strip(c[0], explicit=True))) in seen:
                continue
            seen.add((id(inner), id(strip(c[0], explicit=True))))
            target = ex.resolve(inner, {}, g.tu)
            guards = _guards_before(g, n, prog)
            if any(_cmp_bound(gd_, ex, g.tu, target, single) for gd_ in guards):
                chk.ok(S2, '%s: %s narrowed to one byte under a range guard on the full length' % (name, target), locstr(n))
                continue
            sites_ok, sites_bad = _caller_guarantees(prog, ex, g, inner) if g is not f else (None, None)
            if sites_ok is not None:
                # the guard is a precondition of the helper: every call must establish it
                chain = _emit_helpers(ex, f)
                for h, call, tgt in sites_ok:
                    if h.key in chain:
                        chk.ok(S2, '%s: %s narrowed to one byte in %s, every caller of which bounds the full length before '
                                   'the call (here %s at %s)' % (name, target, g.name, tgt, locstr(call)), locstr(n))
                for h, call, why in sites_bad:
                    if h.key not in chain:
                        # a call outside this codec: reported with the codec it belongs to, or (if it belongs to
                        # none) once
                        if h.key in _all_chains(prog, ex) or locstr(call) in chk.__dict__.setdefault('_s2_orphans', set()):
                            continue
                        chk._s2_orphans.add(locstr(call))
                    chk.violation(S2, '%s|%s' % (name, re.sub(r'local:', '', target)), locstr(call),
                                  '%s narrows %s to one byte and does not itself check the full length against 255; it '
                                  'relies on its callers, and the call at %s in %s does not establish that: %s.  A longer '
                                  'label is written with a truncated length byte followed by all of its bytes, and decodes '
                                  'to something else' % (g.name, target, locstr(call), _short(h.qualname or h.name), why))
                if not sites_bad and not any(h.key in chain for h, _, _ in sites_ok):
                    chk.unknown(S2, name, 'no call of %s on the way from %s was found' % (g.name, f.name))
            else:
                chk.violation(S2, '%s|%s' % (name, re.sub(r'local:', '', target)), locstr(n),
                              '%s::%s narrows %s to one byte with no dominating check of the full length against '
                              '255 (a test on the already narrowed value cannot fail): a longer label is written '
                              'with a truncated length byte followed by all of its bytes, and decodes to something '
                              'else' % (_short(g.cls or f.cls or ''), g.name, target))


def _sentinels(prog, ex, chk, S4, name, ge, gd):
    f = ge.func
    mk = prog.enums.get('djinterop::musical_key') or {}
    rec = prog.records.get(f.cls)
    ftypes = {x.get('name'): (x.get('type') or '') for x in (rec.fields if rec else [])}
    for n in walk(f.body):
        k = n.get('kind')
        sent = None
        field = None
        if k == 'CXXMemberCallExpr':
            callee = strip(children(n)[0])
            if callee.get('name') == 'value_or':
                field = ex.resolve(children(callee)[0], {}, f.tu)
                sent = literal_value(children(n)[1])
        elif k == 'ConditionalOperator':
            c = children(n)
            cond = strip(c[0], explicit=True)
            is_opt = 'optional' in (cond.get('type') or '') or any(
                'optional' in (x.get('type') or '') for x in walk(c[0]) if x.get('kind') in ('DeclRefExpr', 'MemberExpr'))
            z = literal_value(c[2])
            if is_opt and z is not None and not isinstance(z, bool):
                for x in walk(c[0]):
                    if x.get('kind') == 'MemberExpr' and 'optional' in (x.get('type') or ''):
                        field = x.get('name')
                        break
                sent = z
        if sent is None or field is None or not is_plain(field):
            continue
        ft = ftypes.get(field, '')
        inst = '%s.%s absent -> %r' % (name, field, sent)
        if 'musical_key' in ft:
            hit = [e for e, v in mk.items() if v == sent]
            if hit:
                chk.violation(S4, '%s|%s' % (name, field), locstr(n),
                              '%s::%s encodes an absent %s as %r, which is also the value of '
                              'musical_key::%s: that key reads back as absent' % (
                                  _short(f.cls or ''), f.name, field, sent, hit[0]),
                              facts={'enumerators': mk})
            else:
                chk.ok(S4, inst, locstr(n), detail='no enumerator has this value')
        elif (name, field) in NUMERIC_ZERO_IS_NONE and sent == 0:
            chk.ok(S4, inst, locstr(n), detail='reasoned convention: ' + NUMERIC_ZERO_IS_NONE[(name, field)])
        else:
            chk.violation(S4, '%s|%s' % (name, field), locstr(n),
                          '%s::%s encodes an absent %s as %r; a present %r would read back as absent '
                          'and the convention is not among the enumerated ones' % (
                              _short(f.cls or ''), f.name, field, sent, sent))
    # empty-slot arms: the absent arm of an optional slot must write the reserved -1 offsets
    for it in ge.items:
        if it[0] != 'repeat':
            continue
        for sub in it[2]:
            if sub[0] != 'alt':
                continue
            absent = sub[3]
            offs = [x for x in codec.linearise(absent)[0] if x[0] == 'prim' and x[1].startswith('double')]
            present = [x for x in codec.linearise(sub[2])[0] if x[0] == 'prim' and x[1].startswith('double')]
            inst = '%s: empty slot of %s' % (name, it[1])
            if offs and all(x[2] == 'const:-1' for x in offs) and len(offs) == len(present):
                chk.ok(S4, inst + ' writes offset(s) -1', locstr(ge.func.node))
            else:
                chk.violation(S4, '%s|empty-slot' % name, locstr(ge.func.node),
                              '%s: the absent arm writes %s; the reserved empty-slot encoding is an '
                              'offset of -1 for each offset of the present arm' % (inst, offs))


def _sibling_guard(prog, chk, S5):
    from .. import sites, sql, effects
    st = 'djinterop::engine::v1::engine_storage'
    writers = []
    for f in prog.functions.values():
        if f.cls != st or f.is_pattern or f.body is None:
            continue
        ss = sites.find_sites(f)
        enc_binds = []
        for s in ss:
            try:
                stx = sql.parse(effects.site_sql_text(s))
            except sql.SqlError:
                continue
            if stx.kind not in ('insert', 'update') or (stx.table or '').lower() != 'performancedata':
                continue
            for b in s.binds:
                for x in walk(b):
                    if x.get('kind') == 'CXXMemberCallExpr' and strip(children(x)[0]).get('name') == 'encode':
                        obj = strip(children(strip(children(x)[0]))[0], explicit=True)
                        if obj.get('kind') in ('CXXTemporaryObjectExpr', 'InitListExpr', 'CXXConstructExpr') \
                                and not [a for a in children(obj) if a.get('kind') != 'CXXDefaultArgExpr']:
                            continue   # default-constructed constant value
                        enc_binds.append((s, x))
            # pre-encoded local bound later
            for b in s.binds:
                bb = strip(b, explicit=True)
                if bb.get('kind') == 'DeclRefExpr' and 'encoded' in ((bb.get('referencedDecl') or {}).get('name') or ''):
                    enc_binds.append((s, bb))
        if enc_binds:
            writers.append((f, enc_binds))
    seen = set()
    for f, eb in writers:
        if f.qualname in seen:
            continue
        seen.add(f.qualname)
        def guarded(fn, depth=0):
            """fn (or a repository helper it calls) throws when decode(...) of the encoded value differs: the
            test may be written in the condition or held in a named flag (single-assignment local)."""
            for n in walk(fn.body):
                if n.get('kind') == 'IfStmt':
                    c = children(n)
                    dec = any(x.get('kind') in ('CallExpr',) and
                              (strip(children(x)[0]).get('referencedDecl') or {}).get('name') == 'decode'
                              for x in program.walk_expanded(c[0], fn.node))
                    if dec and any(any(x.get('kind') == 'CXXThrowExpr' for x in walk(arm)) for arm in c[1:]):
                        return True
                elif n.get('kind') == 'CallExpr' and depth < 2:
                    ref = strip(children(n)[0]).get('referencedDecl') or {}
                    d = fn.tu.ids.get(ref.get('id'))
                    for t in (prog.definitions_for(fn.tu, d) if d is not None else []):
                        if t.body is not None and prog.in_repo(t.file) and t is not fn and guarded(t, depth + 1):
                            return True
            return False
        has_guard = guarded(f)
        inst = '%s binds %d encoded blob(s) into PerformanceData' % (f.qualname, len(eb))
        if has_guard:
            chk.ok(S5, inst + ' behind decode(encode(x)) == x', locstr(f.node))
        else:
            chk.violation(S5, '%s|no round-trip guard' % _short(f.qualname), locstr(f.node),
                          '%s writes encoded blobs without the decode-after-encode check that '
                          'set_performance_data_column applies: a value that does not survive the '
                          'round trip is stored silently on this path' % f.qualname)
