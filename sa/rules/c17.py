"""C17  verify() reports every structural deviation from the schema.

V1  typestate of every expectation block
V2  expectations == catalog derived from the same class's own DDL (complete
    and exact: every table/view/column/index/index column is expected,
    nothing else is)
V3  the same expectations == catalog of every reference dump of that version
V4  the validate helpers compare every attribute the property lists and throw
    database_inconsistency; validate_no_more rejects a longer list
"""
import re

from .. import program, schemas, verifyblocks
from ..frontend import AnalysisBroken
from ..program import children, strip, walk, locstr
from ..report import Check


def _expected_from_catalog(cat, kind, target, type_arg=None):
    if kind == 'master_list':
        m = cat.master(target)
        return sorted(n for n, t in m)
    if kind == 'table_info':
        ti = cat.table_info(target)
        if ti is None:
            return None
        return sorted(((c[0], c[1], c[2], c[3], c[4]) for c in ti), key=lambda r: r[0])
    if kind == 'index_list':
        il = cat.index_list(target)
        if il is None:
            return None
        return sorted(il, key=lambda r: r[0])
    if kind == 'index_info':
        ii = cat.index_info(target)
        if ii is None:
            return None
        return sorted(ii, key=lambda r: r[0])
    return None


def _block_values(b):
    """Normalise the literal tuples of a block to the model's shape."""
    if b.kind == 'master_list':
        # (db_name?, item_type, item_name, table_name)
        return [e[-2] for e in b.entries]
    return [tuple(e) for e in b.entries]


def _cat_for(cats, b, gen):
    if gen == 1:
        alias = (b.db_name or 'main').lower()
        return cats.get(alias), alias
    return cats.get('main'), 'main'


def _compare(chk, rule, short, b, got, want, versus, key_extra=''):
    what = '%s %s%s' % (b.kind, (b.db_name + '.') if b.db_name else '', b.target)
    if want is None:
        chk.violation(rule, '%s|%s|%s|no-object%s' % (short, b.kind, b.target, key_extra), b.loc,
                      '%s expects %s but %s has no such object' % (short, what, versus))
        return False
    if got == want:
        return True
    # describe the first difference
    gi = {(_k(x)): x for x in got}
    wi = {(_k(x)): x for x in want}
    msgs = []
    for k in wi:
        if k not in gi:
            msgs.append('%r is in %s but not expected (verify would report "more entries" on a valid '
                        'library, or miss it)' % (k, versus))
    for k in gi:
        if k not in wi:
            msgs.append('%r is expected but not in %s' % (k, versus))
    for k in gi:
        if k in wi and gi[k] != wi[k]:
            msgs.append('%r: expected %r, %s has %r' % (k, gi[k], versus, wi[k]))
    if not msgs and [_k(x) for x in got] != [_k(x) for x in want]:
        msgs.append('order differs: expected %s, sorted catalog order is %s' % (
            [_k(x) for x in got], [_k(x) for x in want]))
    for m in msgs[:6]:
        chk.violation(rule, '%s|%s|%s|%s%s' % (short, b.kind, b.target, m.split(':')[0][:60], key_extra), b.loc,
                      '%s, %s: %s' % (short, what, m),
                      facts={'expected_by_verify': got, 'catalog': want, 'versus': versus})
    return False


def _k(x):
    return x[0] if isinstance(x, tuple) else x


def _listing_sources(prog, chk, V6):
    """The four listing helpers (table / index / column lists and sqlite_master) read the catalog of
    the database they are told to read.  Accepted statement forms (SQLite semantics): `PRAGMA
    [<schema>.]<name>('<object>')` and `SELECT .. FROM [<schema>.]sqlite_master ..`, with the schema
    taken from the helper's database-name parameter when it has one.  The table-valued form
    `<schema>.pragma_<name>(..)` is rejected: SQLite ignores a schema qualifier there and resolves
    the object in attach order, so the perfdata copy of a table would never be inspected."""
    from .. import sites as _sites
    n = 0
    for f in prog.functions.values():
        if f.body is None or f.kind != 'CXXConstructorDecl' or 'schema_validate_utils' not in (f.file or ''):
            continue
        own = [(st.text, st) for st in _sites.find_sites(f)]
        # a statement moved into a member helper the constructor calls: read it with the constructor's
        # arguments put in place of the helper's parameters
        from .. import callgraph as _cgm
        env_f = _sites._string_locals(f)
        for e in _cgm.get(prog).edges(f):
            for g in e.targets:
                if g.body is None or g.key == f.key or 'schema_validate_utils' not in (g.file or ''):
                    continue
                gs = _sites.find_sites(g)
                if not gs:
                    continue
                args = children(e.node)[1:]
                rendered = {}
                for p_, a in zip(g.params, args):
                    parts = _sites._merge(_sites.sql_parts(a, env_f))
                    rendered[p_.get('name')] = ''.join(x if isinstance(x, str) else '${%s}' % x.desc for x in parts)
                for st in gs:
                    txt_ = st.text
                    for pn_, val in rendered.items():
                        txt_ = txt_.replace('${%s}' % pn_, val)
                    own.append((txt_, st))
        for txt, st in own:
            n += 1
            pn = [p.get('name') for p in f.params]
            holes = re.findall(r'\$\{(\w+)\}', txt)
            has_db = len(f.params) == 3
            dbn = pn[1] if has_db else None
            short = '%s(%s)' % ((f.qualname or '').split('::')[-1], ', '.join(pn[1:]))
            inst = '%s reads %r' % (short, txt)
            ok = False
            why = ''
            m = re.match(r"^\s*PRAGMA\s+(?:\$\{(\w+)\}\.)?(table_info|index_list|index_info|table_xinfo|index_xinfo)\s*\(\s*'\$\{(\w+)\}'\s*\)\s*;?\s*$", txt, re.I)
            m2 = re.match(r"^\s*SELECT\s+[\w\s,]+\s+FROM\s+(?:\$\{(\w+)\}\.)?sqlite_master\b", txt, re.I)
            mm = m or m2
            if mm:
                sch = mm.group(1)
                if has_db and sch != dbn:
                    why = 'the statement is not qualified with the database name parameter %s' % dbn
                elif not has_db and sch is not None:
                    why = 'unexpected schema qualifier'
                else:
                    ok = True
            elif re.search(r'\bpragma_\w+\s*\(', txt, re.I):
                if has_db and re.search(r'\$\{%s\}\s*\.\s*pragma_' % re.escape(dbn or ''), txt):
                    why = ('SQLite ignores the schema qualifier of a pragma table-valued function: the object is looked '
                           'up in attach order, so the other attached file with a table of the same name is never read')
                elif has_db and not re.search(r",\s*'?\$\{%s\}'?\s*\)" % re.escape(dbn or ''), txt):
                    why = 'the database name parameter does not reach the table-valued function as its schema argument'
                else:
                    ok = True
            else:
                why = 'statement form not among the modelled catalog queries'
            if ok:
                chk.ok(V6, inst, locstr(st.node))
            else:
                chk.violation(V6, '%s|listing source' % short, locstr(st.node), '%s: %s' % (inst, why))
    if n < 8:
        chk.fail_broken('V6: only %d listing-helper statement(s) found (expected 8)' % n)


def run(tier='quick'):
    prog = program.load()
    chk = Check('C17', tier)
    chk.units = len(prog.tus)
    V1 = chk.rule('V1', 'every expectation block follows list -> begin/end -> (validate; ++iter)* -> '
                        'validate_no_more, all on its own iterators, nothing else touching them', floor=1000)
    V2 = chk.rule('V2', 'expectation blocks reachable from a class\'s verify() equal the catalog derived '
                        'from the same class\'s own DDL, and cover every table, view, index and index '
                        'column of it', floor=1000)
    V3 = chk.rule('V3', 'the same expectation blocks equal the catalog of every reference dump of that '
                        'version (accept side)', floor=2000)
    V4 = chk.rule('V4', 'validate helpers compare each listed attribute with the entry member of the same '
                        'meaning, throw database_inconsistency on inequality and on iter == end; '
                        'validate_no_more throws when iter != end', floor=20)
    V5 = chk.rule('V5', 'each creator stamps the library with the version triple of its own class, so that the '
                        'validator verify() selects after reopening is the one written for that structure', floor=50)
    V6 = chk.rule('V6', 'the listing helpers read the catalog of the database they are given: PRAGMA / sqlite_master '
                        'statements qualified with their database-name parameter', floor=8)
    _listing_sources(prog, chk, V6)
    V7 = chk.rule('V7', 'the column listing shows every column: it is read with PRAGMA table_xinfo, which also lists '
                        'generated (hidden) columns - table_info leaves them out, so an extra generated column is not '
                        'reported', floor=2)
    _listing_complete(prog, chk, V7)
    V8 = chk.rule('V8', 'every view a creator makes has an expectation block for its columns (a missing, extra or renamed '
                        'column of a view is a deviation too; the library selects view columns by name)', floor=20)
    V9 = chk.rule('V9', 'verify() reports a deviation as database_inconsistency whatever statement of the validator trips '
                        'over it: each call of a validator sits in a try block whose handler for the SQLite exception '
                        'type throws database_inconsistency (PRAGMA table_info on a view whose base table lost a column '
                        'fails inside SQLite)', floor=2)
    _verify_translates(prog, chk, V9)
    V11 = chk.rule('V11', 'every call of verify() examines the library as it is now: in each function that hands the library to '
                          'a validator the call is unconditional (not under an if / loop / switch) and no return statement '
                          'precedes it - no early exit on a remembered result (a schema cookie, a "verified" flag) - and the '
                          'context objects hold no such memory (rule N1 of C10)', floor=2)
    _verify_unconditional(prog, chk, V11)
    from . import c10 as _c10
    _c10.handles_stateless(prog, chk, V11)
    chk.assume('PRAGMA table_info / index_list / index_info and sqlite_master report what the catalog '
               'model derives from the DDL (the model is cross-validated here against expectation blocks '
               'that pass on real SQLite in the pinned suite)')

    classes = schemas.creator_classes(prog)
    refs = schemas.load_references(prog.repo)
    nblocks = 0
    for cls in classes:
        short = cls.split('::')[-1]
        ver = schemas.version_of_class(prog, cls)
        mname = re.match(r'schema_(\d+)_(\d+)_(\d+)', short)
        name_ver = tuple(int(x) for x in mname.groups()) if mname else None
        # V5: after reopening, verify() runs the validator of the *detected* version: the creator must
        # stamp the triple of its own class, or a library it created is judged by another version's list
        if ver != name_ver:
            chk.violation(V5, '%s|schema_version' % short, locstr(prog.records[cls].node),
                          '%s declares schema_version %s (own or inherited) but is the creator / validator of %s: '
                          'a library it creates is detected as another version after reopening and verify() then '
                          'applies that version\'s expectation lists to it' % (short, ver, name_ver))
            ver = name_ver
        else:
            chk.ok(V5, '%s: schema_version %s is its own' % (short, ver), locstr(prog.records[cls].node))
        gen = 1 if ver[0] == 1 else 2
        trace = schemas.creation_trace(prog, cls)
        from . import c12 as _c12
        for e_ in trace:
            if e_.stmt.kind == 'insert' and (e_.stmt.table or '').lower() == 'information':
                _c12._check_info_insert(prog, chk, V5, cls, short, ver, e_)
        cats = schemas.split_catalogs(trace, gen)
        blocks = verifyblocks.verify_trace(prog, cls)
        nblocks += len(blocks)
        variant = 'desktop' if short.endswith('_desktop') else ('os' if short.endswith('_os') else None)
        cands = [r for r in refs if r.version == ver and (r.variant == variant or ver != (1, 18, 0))]
        seen = set()
        for b in blocks:
            chk.analysed(b.func)
            inst = '%s %s %s%s' % (short, b.kind, (b.db_name + '.') if b.db_name else '', b.target)
            # ---- V1
            if b.problems:
                for pr in b.problems:
                    chk.violation(V1, '%s|%s|%s|%s' % (short, b.kind, b.target, re.sub(r' at \S+', '', pr)[:70]),
                                  b.loc, '%s: %s' % (inst, pr))
            else:
                chk.ok(V1, inst, b.loc, site='%s|%s' % (short, b.loc))
            # ---- V2
            cat, alias = _cat_for(cats, b, gen)
            if cat is None:
                chk.violation(V2, '%s|%s|%s|no-db' % (short, b.kind, b.target), b.loc,
                              '%s: database alias %r is not created by this class' % (inst, b.db_name))
                continue
            got = _block_values(b)
            want = _expected_from_catalog(cat, b.kind, b.target)
            seen.add((alias, b.kind, b.target.lower()))
            if _compare(chk, V2, short, b, got, want, 'the DDL of ' + short):
                chk.ok(V2, inst, b.loc, detail='%d entries' % len(got), site='%s|%s|%s|%s' % (short, alias, b.kind, b.target))
            # ---- V3
            for r in cands:
                rc = r.catalogs.get(alias)
                if rc is None:
                    continue
                wantr = _expected_from_catalog(rc, b.kind, b.target)
                if _compare(chk, V3, short, b, got, wantr, 'reference ' + r.label, key_extra='|' + r.label):
                    chk.ok(V3, inst + ' vs ' + r.label, b.loc, site='%s|%s|%s|%s|%s' % (short, alias, b.kind, b.target, r.label))
        # ---- V2 completeness
        for alias, cat in cats.items():
            for typ in ('table', 'view'):
                if (alias, 'master_list', typ) not in seen:
                    chk.violation(V2, '%s|master_list|%s|%s|missing-block' % (short, alias, typ), short,
                                  '%s: verify() has no master_list block for %ss of %s: an extra or missing '
                                  '%s goes unreported' % (short, typ, alias, typ))
            objs = [t.name for t in cat.tables.values()]
            vws = [v.name for v in cat.views.values()]
            # views: the property lists missing/extra/renamed views (master_list
            # block); their columns are checked where a block exists but a block
            # is not required for them
            # (until the hunt, a column block for a view was not required: a view has no stored columns.  But its
            # columns are what the library selects from it, and a renamed / missing / extra one is a deviation the
            # property lists - the 1.x validators inspect them, rule V8)
            for v in vws:
                if (alias, 'table_info', v.lower()) in seen:
                    chk.ok(V8, '%s columns of view %s.%s are inspected' % (short, alias, v),
                           site='%s|cov|view|%s|%s' % (short, alias, v))
                else:
                    chk.violation(V8, 'view %s|no column block in the %s validators' % (v, '2.x' if gen == 2 else '1.x'),
                                  short,
                                  '%s: verify() names view %s.%s in its master list but never inspects its columns: a '
                                  'missing, extra or renamed column of the view (or a view body replaced altogether) goes '
                                  'unreported although the library selects those columns by name' % (short, alias, v),
                                  facts={'class': short})
            for t in objs:
                if (alias, 'table_info', t.lower()) not in seen:
                    chk.violation(V2, '%s|table_info|%s|missing-block' % (short, t), short,
                                  '%s: verify() never inspects the columns of %s %s.%s: a missing, extra or '
                                  'altered column there goes unreported' % (
                                      short, 'table' if t in objs else 'view', alias, t))
                else:
                    chk.ok(V2, '%s columns of %s.%s are inspected' % (short, alias, t),
                           site='%s|cov|ti|%s|%s' % (short, alias, t))
            for t in objs:
                il = cat.index_list(t)
                if (alias, 'index_list', t.lower()) not in seen:
                    chk.violation(V2, '%s|index_list|%s|missing-block' % (short, t), short,
                                  '%s: verify() never inspects the index list of table %s.%s (it has %d '
                                  'index(es)): a missing or extra index there goes unreported'
                                  % (short, alias, t, len(il or ())))
                else:
                    chk.ok(V2, '%s indexes of %s.%s are inspected' % (short, alias, t),
                           site='%s|cov|il|%s|%s' % (short, alias, t))
                for ix in il or ():
                    if (alias, 'index_info', ix[0].lower()) not in seen:
                        chk.violation(V2, '%s|index_info|%s|missing-block' % (short, ix[0]), short,
                                      '%s: verify() never inspects the columns of index %s on %s.%s: a change of '
                                      'the indexed columns goes unreported' % (short, ix[0], alias, t))
                    else:
                        chk.ok(V2, '%s columns of index %s are inspected' % (short, ix[0]),
                               site='%s|cov|ii|%s|%s' % (short, alias, ix[0]))
    chk.extra['blocks_reachable'] = nblocks
    _helpers(prog, chk, V4)
    # verify entry points route to the factory's validator
    _entry(prog, chk, V4)
    V10 = chk.rule('V10', 'the listing helper behind every master-list comparison selects sqlite_master by object type alone: '
                          'a further predicate (a name pattern such as NOT LIKE \'sqlite_stat%\') hides extra objects '
                          'from verify()', floor=2)
    from . import extra
    from .. import callgraph as _cgm, effects as _effm
    _cg = _cgm.get(prog)
    extra.catalog_listing_unfiltered(prog, _cg, _effm.Effects(prog, _cg), chk, V10)
    return chk.finish(
        'Every expectation block reachable from the final verify() overrider of each of the %d schema '
        'classes (%d blocks; helper parameters bound to call-site literals) is read from the clang AST, '
        'its iterator typestate checked, and its literal expectation list compared with what the catalog '
        'model derives (a) from the same class\'s creator DDL and (b) from each of the %d reference '
        'libraries of that version; coverage of every table/view/index by a block is required. With V4 '
        '(helpers compare every attribute) this implies the reject side for each single deviation the '
        'property lists. Nothing is executed.' % (len(classes), nblocks, len(refs)),
        exhaustive=True)


# attributes the property lists, per helper overload (by first iterator type)
REQUIRED = {
    'master_list': {'item_name': 'item_name'},
    'table_info': {'col_name': 'col_name', 'col_type': 'col_type', 'nullable': 'nullable',
                   'default_value': 'default_value', 'part_of_pk': 'part_of_pk'},
    'index_list': {'index_name': 'index_name', 'unique': 'unique'},
    'index_info': {'ordinal': 'ordinal', 'col_name': 'col_name'},
}


def _helpers(prog, chk, V4):
    vals = [f for f in prog.functions.values()
            if f.qualname in (schemas.NS + 'validate', schemas.NS + 'validate_no_more')]
    if len(vals) < 8:
        raise AnalysisBroken('validate helpers not found (%d)' % len(vals))
    for f in vals:
        chk.analysed(f)
        lt = None
        for k in REQUIRED:
            if f.params and k in (f.params[0].get('type') or ''):
                lt = k
        if lt is None:
            raise AnalysisBroken('validate helper with unknown iterator type: ' + f.key)
        it_id = f.params[0]['id']
        end_id = f.params[1]['id']
        # collect guards: if (cond) throw T
        guards = []
        early = []          # conditions of `if (c) return;` statements met so far
        for n in children(f.body):
            if n.get('kind') != 'IfStmt':
                top = strip(n)
                if top.get('kind') == 'CXXThrowExpr' and len(early) == 1:
                    # `if (c) return; throw T;` is `if (!c) throw T;`
                    guards.append((_negated(early[0]), top, n))
                continue
            c = children(n)
            cond = strip(c[0])
            # a condition held in a named flag (`const bool is_exhausted = iter == end; if (is_exhausted) throw`)
            hops = 0
            while cond.get('kind') == 'DeclRefExpr' and hops < 3 and \
                    (cond.get('referencedDecl') or {}).get('id') in program.single_assignment_locals(f.node):
                cond = strip(program.single_assignment_locals(f.node)[cond['referencedDecl']['id']])
                hops += 1
            while cond.get('kind') == 'UnaryOperator' and cond.get('opcode') == '!' and \
                    strip(children(cond)[0]).get('kind') == 'UnaryOperator' and strip(children(cond)[0]).get('opcode') == '!':
                cond = strip(children(strip(children(cond)[0]))[0])
            then = strip(c[1])
            thr = None
            for x in walk(then):
                if x.get('kind') == 'CXXThrowExpr':
                    thr = x
            if thr is None and not n.get('hasElse') and any(x.get('kind') == 'ReturnStmt' for x in walk(then)):
                early.append(cond)
                continue
            guards.append((cond, thr, n))
        short = f.name + '(' + lt + (', db_name' if any(p.get('name') == 'db_name' for p in f.params) else '') + ')'
        if f.name == 'validate_no_more':
            good = False
            for cond, thr, n in guards:
                if _is_iter_cmp(cond, it_id, end_id) == '!=' and _throws_inconsistency(thr):
                    good = True
            if good:
                chk.ok(V4, short + ' throws when iter != end', locstr(f.node))
            else:
                chk.violation(V4, 'validate_no_more|%s' % lt, locstr(f.node),
                              '%s does not throw database_inconsistency when iter != end: extra entries '
                              'are accepted' % short)
            continue
        # validate: iter == end guard first
        first = guards[0] if guards else None
        if first and _is_iter_cmp(first[0], it_id, end_id) == '==' and _throws_inconsistency(first[1]):
            chk.ok(V4, short + ' throws when iter == end', locstr(f.node))
        else:
            chk.violation(V4, 'validate|%s|end-guard' % lt, locstr(f.node),
                          '%s does not throw database_inconsistency when the list is exhausted '
                          '(and would dereference end())' % short)
        pname = {p['id']: p.get('name') for p in f.params}
        compared = {}
        for cond, thr, n in guards:
            if cond.get('kind') == 'BinaryOperator' or cond.get('kind') == 'CXXOperatorCallExpr':
                op = cond.get('opcode') or (strip(children(cond)[0]).get('referencedDecl') or {}).get('name', '').replace('operator', '')
                ops = children(cond) if cond.get('kind') == 'BinaryOperator' else children(cond)[1:]
                if len(ops) != 2 or op != '!=':
                    continue
                a, b = strip(ops[0], explicit=True), strip(ops[1], explicit=True)
                mem = par = None
                for x in (a, b):
                    if x.get('kind') == 'MemberExpr':
                        base = strip(children(x)[0], explicit=True)
                        if _is_iter_deref(base, it_id, f):
                            mem = x.get('name')
                    elif x.get('kind') == 'DeclRefExpr':
                        rid = (x.get('referencedDecl') or {}).get('id')
                        if rid in pname:
                            par = pname[rid]
                if mem and par and _throws_inconsistency(thr):
                    compared[par] = mem
        for par, mem in REQUIRED[lt].items():
            if compared.get(par) == mem:
                chk.ok(V4, '%s compares %s with entry.%s' % (short, par, mem), locstr(f.node))
            else:
                chk.violation(V4, 'validate|%s|%s|%s' % (lt, 'db' if 'db_name' in short else 'nodb', par), locstr(f.node),
                              '%s does not compare parameter %s with entry member %s (compares it with %r): '
                              'a deviation in that attribute is accepted' % (short, par, mem, compared.get(par)))


def _is_iter_deref(n, it_id, f=None):
    # iter->x : CXXOperatorCallExpr operator-> on iter; or a single-assignment local alias of the entry
    # (`const table_info_entry& actual = *iter;`)
    for x in (program.walk_expanded(n, f.node) if f is not None else walk(n)):
        if x.get('kind') == 'DeclRefExpr' and (x.get('referencedDecl') or {}).get('id') == it_id:
            return True
    return False


def _negated(cond):
    """A condition node standing for !cond: comparisons are flipped, anything else is wrapped."""
    flip = {'==': '!=', '!=': '=='}
    c = strip(cond)
    if c.get('kind') == 'UnaryOperator' and c.get('opcode') == '!':
        return strip(children(c)[0])
    if c.get('kind') == 'BinaryOperator' and c.get('opcode') in flip:
        d = dict(c)
        d['opcode'] = flip[c['opcode']]
        return d
    if c.get('kind') == 'CXXOperatorCallExpr':
        cc = children(c)
        ref = strip(cc[0]).get('referencedDecl') or {}
        nm = ref.get('name') or ''
        if nm in ('operator==', 'operator!='):
            # rebuild the callee reference with the opposite operator name
            import copy
            d = copy.deepcopy(c)
            for x in walk(d):
                r = x.get('referencedDecl')
                if r and r.get('name') == nm:
                    r['name'] = 'operator!=' if nm == 'operator==' else 'operator=='
                    break
            return d
    return {'kind': 'UnaryOperator', 'opcode': '!', 'inner': [c]}


def _is_iter_cmp(cond, it_id, end_id):
    ids = [(x.get('referencedDecl') or {}).get('id') for x in walk(cond) if x.get('kind') == 'DeclRefExpr']
    if it_id in ids and end_id in ids:
        names = [(x.get('referencedDecl') or {}).get('name') for x in walk(cond) if x.get('kind') == 'DeclRefExpr']
        if 'operator==' in names:
            return '=='
        if 'operator!=' in names:
            return '!='
        if cond.get('opcode') in ('==', '!='):
            return cond['opcode']
    return None


def _throws_inconsistency(thr):
    if thr is None:
        return False
    c = children(thr)
    if not c:
        return False
    t = strip(c[0]).get('type') or c[0].get('type') or ''
    return t.replace('const ', '').split('::')[-1] == 'database_inconsistency'


def _executed_statements(prog, f, depth=0, binding=None):
    """(site, text) of the statements a function executes itself or through the repository functions it calls
    (a constructor body factored into a private member: `populate(db, "PRAGMA " + db_name + ".table_info", t)`),
    SQL text assembled from a parameter read with the argument of the call in its place."""
    from .. import sites as _sites
    out = []
    binding = binding or {}
    for st in _sites.find_sites(f):
        parts, changed = schemas._subst_parts(st.sql_parts, binding)
        out.append((st, schemas._clone_site(st, parts).text if changed else st.text))
    if depth >= 3 or f.body is None:
        return out
    env = _sites._string_locals(f)
    for n in walk(f.body):
        if n.get('kind') not in ('CallExpr', 'CXXMemberCallExpr'):
            continue
        t = schemas._repo_callee(prog, f, n)
        if t is None or t.key == f.key:
            continue
        args = children(n)[1:]
        b = {}
        for i, p_ in enumerate(t.params):
            ty = (p_.get('dtype') or p_.get('type') or '')
            if i < len(args) and ('string' in ty or 'char' in ty):
                parts, _ = schemas._subst_parts(_sites._merge(_sites.sql_parts(args[i], env)), binding)
                b[p_.get('id')] = _sites._merge(parts)
        out.extend(_executed_statements(prog, t, depth + 1, b))
    return out


def _listing_complete(prog, chk, V7):
    n = 0
    for f in prog.functions.values():
        if f.body is None or f.kind != 'CXXConstructorDecl' or 'schema_validate_utils' not in (f.file or ''):
            continue
        if (f.cls or '').split('::')[-1] != 'table_info':
            continue
        for st, text in _executed_statements(prog, f):
            n += 1
            short = '%s(%s)' % ((f.qualname or '').split('::')[-1], ', '.join(p.get('name') for p in f.params[1:]))
            if re.search(r'\btable_xinfo\b', text, re.I):
                chk.ok(V7, '%s lists columns with table_xinfo' % short, locstr(st.node))
            else:
                chk.violation(V7, 'table_info|columns listed with table_info', locstr(st.node),
                              '%s reads %r: PRAGMA table_info omits generated columns, so `ALTER TABLE t ADD COLUMN x '
                              'INTEGER GENERATED ALWAYS AS (1) VIRTUAL` adds a column verify() does not see (an '
                              'ordinary extra column is reported)' % (short, text))
    if n < 2:
        raise AnalysisBroken('V7: the column listing helper was not found')


class ValidatorCalls:
    """Where the library is handed to a validator: the calls `<validator>-><method>(db)` (method = verify / create,
    receiver a schema_creator_validator) in the functions of the repository other than the schema classes' own
    members, and - transitively - the calls of forwarding helpers.  A function is a forwarding helper when it hands
    one of its own parameters on as the database argument (`void verify_schema(schema, db) { make(schema)->verify(db); }`):
    wherever it is defined and whatever it is called, a call of it stands for the validator call, and the properties
    of the enclosing function are judged at each of its callers.

    sites[f.key]   [(call node, callee Function or None for the member call itself)]
    fwd[f.key]     indices of the parameters of f handed on as the database
    """

    def __init__(self, prog, cg, method):
        base = schemas.BASE
        own = {base} | set(prog.all_derived(base))
        self.prog, self.cg, self.method = prog, cg, method
        self.funcs = {f.key: f for f in prog.functions.values()
                      if not f.is_pattern and f.body is not None and prog.in_repo(f.file) and f.cls not in own}
        self.own = own
        self.sites = {}
        self.fwd = {}
        self._parents = {}
        for f in self.funcs.values():
            pid = {p_.get('id'): i for i, p_ in enumerate(f.params)}
            for call in walk(f.body):
                if not self.is_member_call(call):
                    continue
                self.sites.setdefault(f.key, []).append((call, None))
                args = children(call)[1:]
                i = self._param_index(args[0], pid) if args else None
                if i is not None:
                    self.fwd.setdefault(f.key, set()).add(i)
        self.direct = set(self.sites)
        have = {}
        changed = bool(self.fwd)
        while changed:
            changed = False
            for f in self.funcs.values():
                pid = None
                for e in cg.edges(f):
                    if e.node.get('kind') not in ('CallExpr', 'CXXMemberCallExpr'):
                        continue
                    for t in e.targets:
                        if t.key == f.key or t.key not in self.fwd or t.key not in self.funcs:
                            continue
                        if (f.key, id(e.node), t.key) not in have:
                            have[(f.key, id(e.node), t.key)] = 1
                            self.sites.setdefault(f.key, []).append((e.node, t))
                            changed = True
                        if pid is None:
                            pid = {p_.get('id'): i for i, p_ in enumerate(f.params)}
                        args = children(e.node)[1:]
                        for i in sorted(self.fwd[t.key]):
                            j = self._param_index(args[i], pid) if i < len(args) else None
                            if j is not None and j not in self.fwd.get(f.key, ()):
                                self.fwd.setdefault(f.key, set()).add(j)
                                changed = True

    def is_member_call(self, call):
        if call.get('kind') != 'CXXMemberCallExpr' or not children(call):
            return False
        callee = strip(children(call)[0])
        if callee.get('name') != self.method:
            return False
        recv = children(callee)
        rt = (strip(recv[0]).get('type') or '') if recv else ''
        return 'schema_creator_validator' in rt or self.cg.record_of_type(rt) in self.own

    @staticmethod
    def _param_index(arg, pid):
        a = strip(arg, explicit=True)
        for _ in range(3):
            if a.get('kind') == 'CallExpr' and len(children(a)) == 2 and \
                    (strip(children(a)[0]).get('referencedDecl') or {}).get('name') in ('move', 'forward'):
                a = strip(children(a)[1], explicit=True)
        if a.get('kind') == 'DeclRefExpr':
            return pid.get((a.get('referencedDecl') or {}).get('id'))
        return None

    def callers(self, key):
        return [(self.funcs[k], call) for k, ss in self.sites.items() for call, t in ss
                if t is not None and t.key == key]

    def all_sites(self):
        """(function, call, callee) for every call standing for the validator call, at every level."""
        for k in self.sites:
            for call, t in self.sites[k]:
                yield self.funcs[k], call, t

    def top_sites(self):
        """The sites at which the chain of forwarding helpers ends: in a function that does not receive the
        database from its caller (or that nothing in the repository calls)."""
        for f, call, t in self.all_sites():
            if f.key in self.fwd and self.callers(f.key):
                continue
            yield f, call, t

    def parents(self, f):
        pm = self._parents.get(f.key)
        if pm is None:
            pm = {}
            for x in walk(f.body):
                for c in children(x):
                    pm[id(c)] = x
            self._parents[f.key] = pm
        return pm

    def holds_down(self, f, call, t, pred, seen=()):
        """pred(f, call) holds at this site, or at every site of the helper called here (and so on down)."""
        if pred(f, call):
            return True
        if t is None or t.key in seen:
            return False
        below = self.sites.get(t.key, [])
        return bool(below) and all(self.holds_down(t, c2, t2, pred, tuple(seen) + (f.key,)) for c2, t2 in below)

    def reaches(self, f, pred, seen=()):
        """pred(g) holds for f or for a helper through which f hands the library on."""
        if pred(f):
            return True
        return any(t is not None and t.key not in seen and self.reaches(t, pred, tuple(seen) + (f.key,))
                   for call, t in self.sites.get(f.key, []))


_VC = {}


def validator_calls(prog, method):
    from .. import callgraph as _cgm
    k = (id(prog), method)
    if k not in _VC:
        _VC[k] = ValidatorCalls(prog, _cgm.get(prog), method)
    return _VC[k]


def _verify_translates(prog, chk, V9):
    vc = validator_calls(prog, 'verify')

    def translated(f, call):
        parent = vc.parents(f)
        x = call
        while id(x) in parent:
            x = parent[id(x)]
            if x.get('kind') != 'CXXTryStmt':
                continue
            for h in children(x)[1:]:
                if h.get('kind') != 'CXXCatchStmt':
                    continue
                hv = [c for c in children(h) if c.get('kind') == 'VarDecl']
                ht = (hv[0].get('type') if hv else '...') or ''
                catches = 'sqlite_exception' in ht or ht == '...' or 'std::exception' in ht
                throws = any(y.get('kind') == 'CXXThrowExpr' and children(y) and
                             'database_inconsistency' in (strip(children(y)[0]).get('type') or '')
                             for y in walk(h))
                if catches and throws:
                    return True
        return False

    n = 0
    # judged where the chain of forwarding helpers ends (the function that owns the library); the handler may sit
    # there or around the call at any level below it (inside the helper that makes the validator and calls it)
    for f, call, t in vc.top_sites():
        n += 1
        chk.analysed(f)
        short = f.qualname.replace('djinterop::engine::', '')
        if vc.holds_down(f, call, t, translated):
            chk.ok(V9, '%s converts SQLite errors of the validator to database_inconsistency' % short, locstr(call))
        else:
            chk.violation(V9, '%s|sqlite error escapes verify' % short, locstr(call),
                          '%s calls the validator outside any handler that turns sqlite::sqlite_exception into '
                          'database_inconsistency: dropping List.title (a column the Crate view uses) makes PRAGMA '
                          'table_info(\'Crate\') fail, and verify() throws "SQL logic error" instead of reporting '
                          'the deviation' % short)
    if n < 2:
        raise AnalysisBroken('V9: fewer than two calls of a validator found (%d)' % n)


def _verify_unconditional(prog, chk, rid):
    vc = validator_calls(prog, 'verify')
    n = 0
    orders = {}
    # every level counts: the validator call in the helper and the call of the helper in each of its callers
    for f, call, t in vc.all_sites():
        parent = vc.parents(f)
        order = orders.get(f.key)
        if order is None:
            order = orders[f.key] = {id(x): i for i, x in enumerate(walk(f.body))}
        n += 1
        chk.analysed(f)
        short = f.qualname.replace('djinterop::engine::', '')
        why = None
        x = call
        while id(x) in parent:
            child, x = x, parent[id(x)]
            k = x.get('kind')
            if k in ('IfStmt', 'SwitchStmt', 'ConditionalOperator', 'CaseStmt', 'DefaultStmt') or \
                    (k in ('WhileStmt', 'ForStmt', 'CXXForRangeStmt') and child is children(x)[-1]) or \
                    k == 'LambdaExpr' or k == 'CXXCatchStmt':
                why = 'the call sits under a %s' % k
                break
            if k == 'BinaryOperator' and x.get('opcode') in ('&&', '||') and child is not children(x)[0]:
                why = 'the call is the right operand of %s' % x['opcode']
                break
        if why is None:
            for r in walk(f.body):
                if r.get('kind') == 'ReturnStmt' and order[id(r)] < order[id(call)]:
                    y, in_lambda = r, False
                    while id(y) in parent:
                        y = parent[id(y)]
                        if y.get('kind') == 'LambdaExpr':
                            in_lambda = True
                    if not in_lambda:
                        why = 'a return statement at %s precedes the call' % locstr(r)
                        break
        if why is None:
            chk.ok(rid, '%s hands the library to the validator unconditionally' % short, locstr(call))
        else:
            chk.violation(rid, '%s|validator call can be skipped' % short, locstr(call),
                          '%s: %s: verify() can return normally without having examined the library as it is now' % (
                              short, why))
    if n < 2:
        raise AnalysisBroken('%s: fewer than two calls of a validator found (%d)' % (rid, n))


def _entry(prog, chk, V4):
    """database::verify -> implementation -> make_schema_creator_validator(
    stored schema)->verify(db) for both generations (the factory call and the validator call in the
    implementation itself or in a helper it hands the library to)."""
    vc = validator_calls(prog, 'verify')

    def uses_factory(g):
        for n in walk(g.body):
            if n.get('kind') == 'CallExpr':
                d, q, _, _ = prog.resolve_callee(g.tu, n)
                if q == schemas.NS + 'make_schema_creator_validator':
                    return True
        return False

    found = 0
    done = set()
    for f, call, t in vc.top_sites():
        if f.key in done:
            continue
        done.add(f.key)
        if vc.reaches(f, uses_factory):
            found += 1
            chk.analysed(f)
            chk.ok(V4, '%s verifies through the factory validator' % f.qualname.replace('djinterop::engine::', ''),
                   locstr(f.node))
    if found < 2:
        chk.fail_broken('V4: fewer than two verify entry points use the factory (%d)' % found)
