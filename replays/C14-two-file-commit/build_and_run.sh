#!/bin/sh
# Usage: build_and_run.sh <worktree>     (library must be built in <worktree>/_build)
# Exit 0 = property held, non-zero = violated.
W="${1:?usage: build_and_run.sh <worktree path>}"
HERE="$(cd "$(dirname "$0")" && pwd)"
SCRATCH="$HERE/scratch"
rm -rf "$SCRATCH" && mkdir -p "$SCRATCH" || exit 2
g++ -std=c++17 -O1 -g -I"$W/include" -I"$W/_build/include" "$HERE/demo.cpp" \
    -lstdc++fs -o "$SCRATCH/demo" -L"$W/_build" -ldjinterop -lsqlite3 -Wl,-rpath,"$W/_build" || exit 2
timeout 60 "$SCRATCH/demo" "$SCRATCH"
rc=$?
rm -rf "$SCRATCH"
exit $rc
