// Violation 3: Engine 1.x libraries - the COMMIT of a mutating call is not
// atomic across the two database files (m.db and p.db).
//
// The 1.x code opens ":memory:" as the main database and ATTACHes m.db as
// `music` and p.db as `perfdata` (engine_library_dir_utils.cpp).  SQLite only
// commits a multi-file transaction atomically (via a super-journal) when the
// MAIN database is a real file; with a ":memory:" main database it commits the
// files one after the other.  So when the statement "COMMIT TRANSACTION"
// issued by a mutating call fails after m.db has been committed but before
// p.db has, the call throws, the destructor of sqlite_transaction issues a
// (useless) ROLLBACK, and the library is left with the m.db half of the
// update: e.g. a new Track row whose create_track() call threw, or a key that
// differs between track::key() (m.db) and track::snapshot().key (p.db).
//
// The failing COMMIT is produced with a thin VFS shim (a copy of the default
// VFS whose xDelete fails ONCE with SQLITE_IOERR_DELETE for "p.db-journal",
// i.e. at the commit point of p.db).  Nothing else is injected; this is what
// any I/O error at that point would do.
//
// Exit code 0 = property held everywhere; 1 = property violated.
#include <chrono>
#include <cstring>
#include <filesystem>
#include <functional>
#include <iostream>
#include <sstream>

#include <sqlite3.h>

#include <djinterop/djinterop.hpp>

namespace e = djinterop::engine;
namespace fs = std::filesystem;
using djinterop::database;
using djinterop::track;
using djinterop::track_snapshot;

// ---- VFS shim ---------------------------------------------------------------
static sqlite3_vfs g_shim;
static sqlite3_vfs* g_real = nullptr;
static bool g_armed = false;
static int g_fired = 0;

static int shim_delete(sqlite3_vfs*, const char* name, int sync_dir)
{
    if (g_armed && name)
    {
        auto len = std::strlen(name);
        const char* suffix = "p.db-journal";
        auto slen = std::strlen(suffix);
        if (len >= slen && std::strcmp(name + len - slen, suffix) == 0)
        {
            g_armed = false;  // Fail once only.
            ++g_fired;
            return SQLITE_IOERR_DELETE;
        }
    }
    return g_real->xDelete(g_real, name, sync_dir);
}

static void install_shim()
{
    g_real = sqlite3_vfs_find(nullptr);
    g_shim = *g_real;  // Same methods, same pAppData, same szOsFile.
    g_shim.zName = "fi_shim";
    g_shim.pNext = nullptr;
    g_shim.xDelete = shim_delete;
    sqlite3_vfs_register(&g_shim, 1);
}

// ---- helpers --------------------------------------------------------------
static track_snapshot example_snapshot(const std::string& path, int seed)
{
    track_snapshot s;
    s.relative_path = path;
    s.title = "Title" + std::to_string(seed);
    s.artist = "Artist";
    s.bpm = 120.0 + seed;
    s.key = djinterop::musical_key::a_minor;
    s.sample_count = 44100ull * (200 + seed);
    s.sample_rate = 44100;
    s.duration = std::chrono::milliseconds{(200 + seed) * 1000};
    s.average_loudness = 0.5;
    s.beatgrid = {{-4, -83316.78}, {812, 17470734.439}};
    s.hot_cues.resize(8);
    s.hot_cues[0] =
        djinterop::hot_cue{"Cue", 1000.0 * seed, e::standard_pad_colors::pad_1};
    s.main_cue = 2732.0 + seed;
    return s;
}

template <typename T>
static std::string str(const std::optional<T>& v)
{
    std::ostringstream oss;
    if (v)
        oss << *v;
    else
        oss << "(none)";
    return oss.str();
}

/// Everything a client sees: every track, by getters and by snapshot.
static std::string observable(const database& db)
{
    std::ostringstream oss;
    for (auto& t : db.tracks())
    {
        auto s = t.snapshot();
        oss << "      track " << t.id() << " '" << t.relative_path()
            << "': title()=" << str(t.title()) << " key()=" << str(t.key())
            << " snapshot.key=" << str(s.key) << " bpm()=" << str(t.bpm())
            << " sample_count()=" << str(t.sample_count())
            << " sample_rate()=" << str(t.sample_rate())
            << " duration()=" << (t.duration() ? t.duration()->count() : -1)
            << "ms main_cue()=" << str(t.main_cue())
            << " hot_cues().size()=" << t.hot_cues().size() << "\n";
    }
    return oss.str();
}

struct op
{
    const char* name;
    std::function<void(database&, track&)> fn;
};

int main(int argc, char** argv)
{
    std::string scratch = argc > 1 ? argv[1] : ".";
    install_shim();

    std::vector<op> ops{
        {"track::set_key(d_minor)",
         [](database&, track& t) { t.set_key(djinterop::musical_key::d_minor); }},
        {"track::set_sample_rate(48000)",
         [](database&, track& t) { t.set_sample_rate(48000.0); }},
        {"track::update(other snapshot)",
         [](database&, track& t)
         { t.update(example_snapshot("../music/renamed.mp3", 7)); }},
        {"database::create_track",
         [](database& db, track&)
         { db.create_track(example_snapshot("../music/new.mp3", 3)); }},
    };

    int violations = 0, runs = 0;
    for (auto schema : e::supported_v1_schemas)
    {
        bool verbose = schema == e::latest_v1_schema;
        std::string dir = scratch + "/lib";
        fs::remove_all(dir);
        fs::create_directories(dir);
        int bad_here = 0;
        {
            auto db = e::create_database(dir, schema);
            auto t = db.create_track(example_snapshot("../music/one.mp3", 1));

            for (auto& o : ops)
            {
                auto before = observable(db);
                g_armed = true;
                int fired_before = g_fired;
                bool threw = false;
                std::string what;
                try
                {
                    o.fn(db, t);
                }
                catch (const std::exception& ex)
                {
                    threw = true;
                    what = ex.what();
                }
                g_armed = false;
                if (g_fired == fired_before)
                {
                    std::cout << "  (" << o.name << ": COMMIT never reached "
                              << "p.db-journal; skipped)\n";
                    continue;
                }
                ++runs;
                std::string after, usable = "yes";
                try
                {
                    after = observable(db);
                    t.set_title(t.title());  // A write that changes nothing.
                }
                catch (const std::exception& ex)
                {
                    usable = std::string{"NO: "} + ex.what();
                }
                bool bad = !threw || before != after || usable != "yes";
                if (bad)
                {
                    ++bad_here;
                    ++violations;
                }
                if (bad && verbose)
                {
                    std::cout << "VIOLATION schema " << e::to_string(schema)
                              << " " << o.name
                              << ": COMMIT TRANSACTION fails\n"
                              << "   threw : " << (threw ? what : "NO") << "\n"
                              << "   usable afterwards: " << usable << "\n"
                              << "   before:\n" << before
                              << "   after :\n" << after;
                }
            }
        }
        // Close-and-reopen: the partial state is what is on disk.
        if (verbose)
        {
            auto db = e::load_database(dir);
            std::cout << "   after close-and-reopen:\n" << observable(db);
        }
        std::cout << "schema " << e::to_string(schema) << ": " << bad_here
                  << " of " << ops.size()
                  << " operations left a partial update after a failed "
                     "COMMIT\n";
        fs::remove_all(dir);
    }
    std::cout << runs << " failed COMMITs, " << violations << " violations\n"
              << (violations ? "RESULT: property VIOLATED\n"
                             : "RESULT: property held\n");
    return violations ? 1 : 0;
}
