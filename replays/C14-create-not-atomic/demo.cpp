// Violation 2: creating a library is not atomic.
//
// engine::create_database() (and create_or_load_database(), which calls it)
// issues ~30-90 DDL/DML statements in autocommit mode, one after the other,
// with no enclosing transaction and no clean-up.  If statement k fails, the
// call throws - but the directory now holds a half-built m.db (and p.db), and
// from then on:
//   * database_exists(dir) no longer answers `false` (it answered `false`
//     before the call) - for most k it throws;
//   * create_database(dir) refuses ("a database file already exists");
//   * load_database(dir) / create_or_load_database(dir) throw.
// I.e. the observable state is not what it was before the failed call, and the
// directory stays unusable for the library until somebody deletes the files by
// hand.
//
// Part A: every supported schema, every position k of the failing statement.
//         The failure is injected with an SQLite authorizer that denies the
//         k-th writing statement (it fails with SQLITE_AUTH "not authorized").
// Part B: the same with a *real* error and no authorizer: the database file is
//         limited to N pages (PRAGMA max_page_count), which makes a statement
//         in the middle of the creation fail with SQLITE_FULL "database or
//         disk is full".  Latest 2.x schema.
//
// Exit code 0 = property held everywhere; 1 = property violated.
#include <filesystem>
#include <iostream>
#include <map>
#include <set>
#include <string>

#include <sqlite3.h>

#include <djinterop/djinterop.hpp>

namespace e = djinterop::engine;
namespace fs = std::filesystem;

// ---- injection ------------------------------------------------------------
static long g_stmt_no = 0;          // Statements stepped so far.
static long g_last_counted = -1;    // g_stmt_no at the last counted write.
static long g_write_ordinal = 0;    // Writing statements prepared so far.
static long g_fail_at = 0;          // 0 = never.
static bool g_fired = false;
static long g_max_pages = 0;        // Part B: 0 = unlimited.

static int trace_cb(unsigned type, void*, void*, void* x)
{
    const char* sql = static_cast<const char*>(x);
    if (type == SQLITE_TRACE_STMT && sql && !(sql[0] == '-' && sql[1] == '-'))
        ++g_stmt_no;
    return 0;
}

static int auth_cb(
    void*, int action, const char*, const char*, const char*, const char*)
{
    switch (action)
    {
        case SQLITE_CREATE_INDEX:
        case SQLITE_CREATE_TABLE:
        case SQLITE_CREATE_TRIGGER:
        case SQLITE_CREATE_VIEW:
        case SQLITE_INSERT:
        case SQLITE_UPDATE:
        case SQLITE_DELETE: break;
        default: return SQLITE_OK;
    }
    if (g_last_counted != g_stmt_no)
    {
        g_last_counted = g_stmt_no;
        ++g_write_ordinal;
    }
    if (g_fail_at != 0 && g_write_ordinal == g_fail_at)
    {
        g_fired = true;
        return SQLITE_DENY;
    }
    return SQLITE_OK;
}

static int on_open(sqlite3* db, char**, const void*)
{
    sqlite3_trace_v2(db, SQLITE_TRACE_STMT, trace_cb, nullptr);
    sqlite3_set_authorizer(db, auth_cb, nullptr);
    if (g_max_pages > 0)
    {
        std::string sql =
            "PRAGMA max_page_count = " + std::to_string(g_max_pages);
        sqlite3_exec(db, sql.c_str(), nullptr, nullptr, nullptr);
    }
    return SQLITE_OK;
}

static void reset(long fail_at, long max_pages)
{
    g_stmt_no = 0;
    g_last_counted = -1;
    g_write_ordinal = 0;
    g_fail_at = fail_at;
    g_fired = false;
    g_max_pages = max_pages;
}

// ---- observation through the public API -------------------------------------
static std::string exists_str(const std::string& dir)
{
    try
    {
        return e::database_exists(dir) ? "true" : "false";
    }
    catch (const std::exception& ex)
    {
        return std::string{"THROWS("} + ex.what() + ")";
    }
}

static std::string files(const std::string& dir)
{
    std::string out;
    if (!fs::exists(dir))
        return "(directory absent)";
    for (auto& p : fs::recursive_directory_iterator(dir))
    {
        if (fs::is_regular_file(p))
            out += fs::relative(p.path(), dir).string() + "(" +
                   std::to_string(fs::file_size(p)) + "B) ";
    }
    return out.empty() ? "(no files)" : out;
}

struct outcome
{
    bool fired = false;
    bool threw = false;
    bool violated = false;
    std::string text;
};

static outcome attempt(
    const std::string& dir, e::engine_schema schema, long fail_at,
    long max_pages)
{
    outcome o;
    fs::remove_all(dir);
    fs::create_directories(dir);

    auto exists_before = exists_str(dir);
    std::string what;
    reset(fail_at, max_pages);
    try
    {
        auto db = e::create_database(dir, schema);
    }
    catch (const std::exception& ex)
    {
        o.threw = true;
        what = ex.what();
    }
    o.fired = g_fired || (max_pages > 0 && o.threw);
    reset(0, 0);
    if (!o.fired)
        return o;

    auto exists_after = exists_str(dir);
    auto left = files(dir);

    // The failure was transient: a retry must behave as the first attempt
    // would have without the failure.
    std::string retry = "ok", load = "n/a";
    try
    {
        auto db = e::create_database(dir, schema);
    }
    catch (const std::exception& ex)
    {
        retry = std::string{"THROWS("} + ex.what() + ")";
    }
    if (retry != "ok")
    {
        try
        {
            bool created = false;
            auto db = e::create_or_load_database(dir, schema, created);
            load = created ? "created" : "loaded";
        }
        catch (const std::exception& ex)
        {
            load = std::string{"THROWS("} + ex.what() + ")";
        }
    }

    o.violated = !o.threw || exists_after != exists_before || retry != "ok";
    o.text = "   create_database threw : " + (o.threw ? what : "NO") +
             "\n   database_exists before: " + exists_before +
             "\n   database_exists after : " + exists_after +
             "\n   files left behind     : " + left +
             "\n   retry create_database : " + retry +
             "\n   create_or_load_database: " + load + "\n";
    return o;
}

int main(int argc, char** argv)
{
    std::string scratch = argc > 1 ? argv[1] : ".";
    sqlite3_auto_extension(reinterpret_cast<void (*)(void)>(on_open));

    int violations = 0;

    // Part A.
    for (auto schema : e::supported_schemas)
    {
        long runs = 0, bad = 0, first_bad = 0, last_bad = 0;
        std::string example;

        // Dry run to count the writing statements of a creation.
        fs::remove_all(scratch + "/lib_a");
        fs::create_directories(scratch + "/lib_a");
        reset(0, 0);
        {
            auto db = e::create_database(scratch + "/lib_a", schema);
        }
        long n = g_write_ordinal;

        // Every k for the latest 1.x and 2.x schemas; first, middle and last
        // statement for the others (to keep the run time short).
        bool exhaustive =
            schema == e::latest_v1_schema || schema == e::latest_v2_schema;
        std::set<long> ks;
        if (exhaustive)
            for (long k = 1; k <= n; ++k)
                ks.insert(k);
        else
            ks = {1, n / 2, n};

        for (long k : ks)
        {
            auto o = attempt(scratch + "/lib_a", schema, k, 0);
            if (!o.fired)
                break;
            ++runs;
            if (o.violated)
            {
                ++bad;
                if (!first_bad)
                    first_bad = k;
                last_bad = k;
                if (k == n / 2 || example.empty())
                    example = o.text;
            }
        }
        std::cout << "[A] schema " << e::to_string(schema) << ": " << runs
                  << " of " << n << " positions of the failing statement tried, " << bad
                  << " leave the directory changed/unusable";
        if (bad)
            std::cout << " (k=" << first_bad << ".." << last_bad << ")";
        std::cout << "\n";
        if (bad && (schema == e::latest_v1_schema ||
                    schema == e::latest_v2_schema))
            std::cout << "  example:\n" << example;
        violations += bad;
    }

    // Part B.
    {
        long bad = 0, runs = 0;
        std::string example;
        for (long pages = 1; pages < 200; pages += 3)
        {
            auto o = attempt(scratch + "/lib_b", e::latest_v2_schema, 0, pages);
            if (!o.fired)
                break;  // The whole schema fits: creation succeeded.
            ++runs;
            if (o.violated)
            {
                ++bad;
                if (pages == 19 || example.empty())
                    example = "  example (file limited to " +
                              std::to_string(pages) + " pages):\n" + o.text;
            }
        }
        std::cout << "[B] schema " << e::to_string(e::latest_v2_schema)
                  << ", disk-full at " << runs << " different sizes: " << bad
                  << " leave the directory changed/unusable\n"
                  << example;
        violations += bad;
    }

    fs::remove_all(scratch + "/lib_a");
    fs::remove_all(scratch + "/lib_b");
    std::cout << (violations ? "RESULT: property VIOLATED\n"
                             : "RESULT: property held\n");
    return violations ? 1 : 0;
}
