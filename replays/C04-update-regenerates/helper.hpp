// Shared helper for the C04 demos.  Uses only the public libdjinterop API to
// build a library and to install "foreign-looking" performance-data blobs
// (blobs with trailing data, distinct default/adjusted grids, odd flags, ...),
// and uses raw sqlite3 + zlib (NOT the library) to read back the stored bytes.
#pragma once
#include <djinterop/djinterop.hpp>
#include <djinterop/engine/engine.hpp>
#include <djinterop/engine/v2/engine_library.hpp>

#include <sqlite3.h>
#include <zlib.h>

#include <array>
#include <cstdio>
#include <cstdlib>
#include <cstring>
#include <iostream>
#include <string>
#include <vector>

namespace h
{
namespace e = djinterop::engine;
namespace ev2 = djinterop::engine::v2;
using bytes = std::vector<std::byte>;

inline std::string make_temp_dir()
{
    char tmpl[] = "/tmp/hunt/C04/tmp_XXXXXX";
    if (!mkdtemp(tmpl)) { perror("mkdtemp"); exit(99); }
    return tmpl;
}
inline void rm_rf(const std::string& d)
{
    std::string cmd = "rm -rf '" + d + "'";
    if (system(cmd.c_str())) {}
}

// The five performance-data payloads of one track (uncompressed).
struct payloads
{
    bytes track_data, overview, beat_data, quick_cues, loops;
};
inline const char* names[5] = {
    "trackData", "overviewWaveFormData", "beatData", "quickCues", "loops"};
inline bytes& field(payloads& p, int i)
{
    bytes* a[5] = {&p.track_data, &p.overview, &p.beat_data, &p.quick_cues, &p.loops};
    return *a[i];
}

// Independent inflate of the "4-byte BE length + zlib stream" wrapper.
inline bytes inflate_wrapped(const bytes& z)
{
    if (z.size() < 4) return {};
    uLongf cap = 1 << 16;
    for (;;)
    {
        bytes out(cap);
        uLongf l = cap;
        int r = uncompress((Bytef*)out.data(), &l, (const Bytef*)z.data() + 4, z.size() - 4);
        if (r == Z_OK) { out.resize(l); return out; }
        if (r == Z_BUF_ERROR && cap < (1u << 30)) { cap *= 4; continue; }
        std::cerr << "raw inflate failed\n"; exit(98);
    }
}

// Read the stored blobs with raw sqlite3 (independent of the library).
inline payloads read_raw(const std::string& dir, int64_t id)
{
    sqlite3* db = nullptr;
    std::string path = dir + "/Database2/m.db";
    if (sqlite3_open_v2(path.c_str(), &db, SQLITE_OPEN_READONLY, nullptr) != SQLITE_OK)
    { std::cerr << "cannot open " << path << "\n"; exit(97); }
    sqlite3_stmt* st = nullptr;
    sqlite3_prepare_v2(db,
        "SELECT trackData, overviewWaveFormData, beatData, quickCues, loops "
        "FROM Track WHERE id = ?", -1, &st, nullptr);
    sqlite3_bind_int64(st, 1, id);
    if (sqlite3_step(st) != SQLITE_ROW) { std::cerr << "no row\n"; exit(96); }
    payloads p;
    for (int i = 0; i < 5; ++i)
    {
        auto* d = (const std::byte*)sqlite3_column_blob(st, i);
        int n = sqlite3_column_bytes(st, i);
        bytes raw(d, d + n);
        field(p, i) = (i == 4) ? raw : inflate_wrapped(raw);
    }
    sqlite3_finalize(st);
    sqlite3_close(db);
    return p;
}

inline bytes tail(std::initializer_list<int> v)
{
    bytes b;
    for (int x : v) b.push_back((std::byte)x);
    return b;
}

// Blobs as Engine DJ itself may write them: all are accepted by the decoders.
inline ev2::track_data_blob foreign_track_data()
{
    ev2::track_data_blob b{};
    b.sample_rate = 44100; b.samples = 44100 * 200; b.key = 5;
    b.average_loudness_low = 0.51; b.average_loudness_mid = 0.62; b.average_loudness_high = 0.73;
    b.extra_data = tail({0xA1, 0xA2, 0xA3});
    return b;
}
inline ev2::overview_waveform_data_blob foreign_overview()
{
    ev2::overview_waveform_data_blob b{};
    b.samples_per_waveform_point = 44100.0 * 200 / 1024;
    for (int i = 0; i < 1024; ++i)
        b.waveform_points.push_back({(uint8_t)(i & 0x7f), (uint8_t)((i * 3) & 0x7f), (uint8_t)((i * 7) & 0x7f)});
    b.maximum_point = {0x7f, 0x7f, 0x7f};
    b.extra_data = tail({0xB1, 0xB2, 0xB3, 0xB4});
    return b;
}
inline ev2::beat_data_blob foreign_beat_data()
{
    ev2::beat_data_blob b{};
    b.sample_rate = 44100; b.samples = 44100 * 200; b.is_beatgrid_set = 1;
    // Engine keeps the analysed ("default") grid next to the user-adjusted one.
    b.default_beat_grid = {{-1000.0, -4, 812, 0x11223344}, {8820000.0, 808, 0, 0x55667788}};
    b.adjusted_beat_grid = {{-500.0, -4, 812, 0x11223344}, {8820500.0, 808, 0, 0x55667788}};
    b.extra_data = bytes(9, std::byte{0});
    b.extra_data[8] = std::byte{0xC1};
    return b;
}
inline ev2::quick_cues_blob foreign_quick_cues()
{
    ev2::quick_cues_blob b{};
    for (int i = 0; i < 8; ++i) b.quick_cues.push_back(ev2::quick_cue_blob::empty());
    b.quick_cues[0] = {"Cue 1", 12345.0, e::standard_pad_colors::pad_1};
    b.quick_cues[2] = {"Drop", 999999.0, e::standard_pad_colors::pad_3};
    b.adjusted_main_cue = 2222.0; b.is_main_cue_adjusted = true; b.default_main_cue = 1111.0;
    b.extra_data = tail({0xD1, 0xD2});
    return b;
}
inline ev2::loops_blob foreign_loops()
{
    ev2::loops_blob b{};
    for (int i = 0; i < 8; ++i) b.loops.push_back(ev2::loop_blob::empty());
    b.loops[0] = {"Loop 1", 1000.0, 2000.0, 1, 1, e::standard_pad_colors::pad_1};
    b.loops[1] = {"Half", 3000.0, -1.0, 1, 0, e::standard_pad_colors::pad_2};  // loop-in only
    b.extra_data = tail({0xE1, 0xE2, 0xE3});
    return b;
}

struct fixture
{
    std::string dir;
    ev2::engine_library lib;
    djinterop::database db;
    djinterop::track trk;
    int64_t id;
};

inline fixture make_fixture(e::engine_schema schema)
{
    auto dir = make_temp_dir();
    auto lib = ev2::engine_library::create(dir, schema);
    auto db = lib.database();
    djinterop::track_snapshot s{};
    s.relative_path = "../Music/foreign.mp3";
    s.title = "Original title";
    s.sample_rate = 44100;
    s.sample_count = 44100ull * 200;
    s.key = djinterop::musical_key::b_minor;  // == 5, as in the blob
    s.average_loudness = 0.51;
    auto t = db.create_track(s);
    auto id = t.id();
    auto tt = lib.track();
    tt.set_track_data(id, foreign_track_data());
    tt.set_overview_waveform_data(id, foreign_overview());
    tt.set_beat_data(id, foreign_beat_data());
    tt.set_quick_cues(id, foreign_quick_cues());
    tt.set_loops(id, foreign_loops());
    return fixture{dir, lib, db, t, id};
}

// Report differences; `ignore` lists (blob index, offset, length) ranges that
// belong to the field being deliberately changed.
struct range { int blob; size_t off; size_t len; };
inline int diff(payloads& before, payloads& after, const std::vector<range>& ignore, bool verbose = true)
{
    int bad = 0;
    for (int i = 0; i < 5; ++i)
    {
        auto& a = field(before, i);
        auto& b = field(after, i);
        size_t n = std::max(a.size(), b.size());
        size_t changed = 0, first = n;
        for (size_t k = 0; k < n; ++k)
        {
            bool ign = false;
            for (auto& r : ignore) if (r.blob == i && k >= r.off && k < r.off + r.len) ign = true;
            if (ign) continue;
            bool same = k < a.size() && k < b.size() && a[k] == b[k];
            if (!same) { ++changed; if (first == n) first = k; }
        }
        if (changed)
        {
            ++bad;
            if (verbose)
                std::cout << "    " << names[i] << ": " << changed << " byte(s) outside the edited field differ"
                          << " (payload " << a.size() << " -> " << b.size() << " bytes, first at offset " << first << ")\n";
        }
    }
    return bad;
}
inline std::string hex(const bytes& b, size_t off, size_t len)
{
    static const char* d = "0123456789abcdef";
    std::string s;
    for (size_t i = off; i < off + len && i < b.size(); ++i) { s += d[(int)b[i] >> 4]; s += d[(int)b[i] & 15]; s += ' '; }
    return s;
}
}  // namespace h
