#!/bin/sh
# usage: build_and_run.sh <path-to-libdjinterop-worktree>   (library must be built in <worktree>/_build)
# exit 0 = property held, non-zero = property violated
WT="${1:?usage: build_and_run.sh <worktree>}"
HERE="$(cd "$(dirname "$0")" && pwd)"
g++ -std=c++17 -O1 -g -I"$WT/include" -I"$WT/_build/include" "$HERE/demo.cpp" -o "$HERE/demo" \
    -L"$WT/_build" -ldjinterop -lsqlite3 -lz -Wl,-rpath,"$WT/_build" || exit 90
timeout 60 "$HERE/demo"
rc=$?
echo "exit code: $rc"
exit $rc
