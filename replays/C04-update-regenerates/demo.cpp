// C04 / 2: track::snapshot() -> change the title -> track::update() rewrites
// all five performance-data blobs from scratch: trailing bytes, the default
// beat grid, per-marker unknown values, mid/high loudness, the default main cue
// and loop flags are all lost although only the title was changed.
#include "helper.hpp"
using namespace h;

int main()
{
    int violated = 0;
    for (auto schema : e::supported_v2_schemas)
    {
        std::cout << "== schema " << e::to_string(schema) << "\n";
        auto fx = make_fixture(schema);
        auto before = read_raw(fx.dir, fx.id);
        auto tt = fx.lib.track();
        auto bd0 = tt.get_beat_data(fx.id);
        auto td0 = tt.get_track_data(fx.id);
        auto qc0 = tt.get_quick_cues(fx.id);
        auto lp0 = tt.get_loops(fx.id);

        // "reading a track, changing one field and writing it back"
        auto s = fx.trk.snapshot();
        s.title = "New title";
        fx.trk.update(s);

        auto after = read_raw(fx.dir, fx.id);
        int bad = diff(before, after, {});   // the title is not stored in any blob
        if (bad)
        {
            auto bd1 = tt.get_beat_data(fx.id);
            auto td1 = tt.get_track_data(fx.id);
            auto qc1 = tt.get_quick_cues(fx.id);
            auto lp1 = tt.get_loops(fx.id);
            std::cout << "    decoded: default grid first offset " << bd0.default_beat_grid[0].sample_offset
                      << " -> " << bd1.default_beat_grid[0].sample_offset
                      << "; marker unknown_value_1 0x" << std::hex << bd0.adjusted_beat_grid[0].unknown_value_1
                      << " -> 0x" << bd1.adjusted_beat_grid[0].unknown_value_1 << std::dec
                      << "; loudness mid " << td0.average_loudness_mid << " -> " << td1.average_loudness_mid
                      << "; default main cue " << qc0.default_main_cue << " -> " << qc1.default_main_cue
                      << "; loop[1].is_end_set " << (int)lp0.loops[1].is_end_set << " -> " << (int)lp1.loops[1].is_end_set
                      << "; trailing bytes " << td0.extra_data.size() << "/" << qc0.extra_data.size() << "/" << lp0.extra_data.size()
                      << " -> " << td1.extra_data.size() << "/" << qc1.extra_data.size() << "/" << lp1.extra_data.size() << "\n";
            std::cout << "  VIOLATED (" << bad << " of 5 blobs altered)\n";
            ++violated;
        }
        else std::cout << "  ok\n";
        rm_rf(fx.dir);
    }
    std::cout << (violated ? "RESULT: property violated" : "RESULT: property held") << "\n";
    return violated ? 1 : 0;
}
