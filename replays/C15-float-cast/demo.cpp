// Replay for C15-U11: public operations with extreme numbers reach a floating -> integer conversion
// whose operand is outside the target range (undefined behaviour, [conv.fpint]).
// Library built with -fsanitize=float-cast-overflow -fno-sanitize-recover: each case runs in a child
// process; a non-zero exit status of the child = the sanitizer stopped it.
#include <djinterop/djinterop.hpp>
#include <cmath>
#include <iostream>
#include <limits>
#include <sys/wait.h>
#include <unistd.h>
namespace e = djinterop::engine;
template <class F> int run(const char* what, F f)
{
    std::cout.flush();
    pid_t p = fork();
    if (p == 0) { try { f(); } catch (const std::exception&) {} _exit(0); }
    int st = 0; waitpid(p, &st, 0);
    bool bad = !(WIFEXITED(st) && WEXITSTATUS(st) == 0);
    std::cout << what << ": " << (bad ? "UNDEFINED BEHAVIOUR reported" : "ok") << std::endl;
    return bad;
}
int main()
{
    int bad = 0;
    for (auto schema : {e::engine_schema::schema_1_18_0_os, e::engine_schema::schema_2_21_2})
    {
        std::cout << e::to_string(schema) << std::endl;
        auto mk = [&] { auto db = e::create_temporary_database(schema); djinterop::track_snapshot s; s.relative_path = "a/b.mp3"; return std::make_pair(db, db.create_track(s)); };
        bad += run(" set_sample_rate(1e300)", [&] { auto [db, t] = mk(); t.set_sample_rate(1e300); });
        bad += run(" set_sample_rate(NaN)", [&] { auto [db, t] = mk(); t.set_sample_rate(std::nan("")); });
        bad += run(" set_bpm(NaN)", [&] { auto [db, t] = mk(); t.set_bpm(std::nan("")); });
        bad += run(" set_bpm(1e300)", [&] { auto [db, t] = mk(); t.set_bpm(1e300); });
        bad += run(" create_track(bpm = inf)", [&] { auto db = e::create_temporary_database(schema); djinterop::track_snapshot s; s.relative_path = "a/b.mp3"; s.bpm = std::numeric_limits<double>::infinity(); db.create_track(s); });
        bad += run(" create_track(sample_rate = -1e300, sample_count = 1)", [&] { auto db = e::create_temporary_database(schema); djinterop::track_snapshot s; s.relative_path = "a/b.mp3"; s.sample_rate = -1e300; s.sample_count = 1; db.create_track(s); });
        bad += run(" set_waveform after set_sample_rate(1e19)", [&] { auto [db, t] = mk(); t.set_sample_count(100000); t.set_sample_rate(1e19); t.set_waveform(std::vector<djinterop::waveform_entry>(10)); });
    }
    std::cout << bad << " case(s) with undefined behaviour\n";
    return bad ? 1 : 0;
}
