#!/bin/sh
# usage: build_and_run.sh <worktree>   (library must be built in <worktree>/_build)
W="${1:?worktree path}"
D="$(cd "$(dirname "$0")" && pwd)"
OUT="$(mktemp -d)"
g++ -std=c++17 -O1 -g "$D/demo.cpp" -I"$W/include" -I"$W/_build/include" \
    -L"$W/_build" -ldjinterop -Wl,-rpath,"$W/_build" -o "$OUT/demo" || exit 99
timeout 60 "$OUT/demo"
rc=$?
rm -rf "$OUT"
echo "exit code: $rc"
exit $rc
