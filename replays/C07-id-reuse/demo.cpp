// Violation 5: on 1.x libraries the id of a removed crate is handed out again
// to the next crate that is created (ids are "highest existing id + 1").  The
// id of the removed crate is thereby found again by crate_by_id(), and a
// handle to the removed crate silently becomes a handle to the new, unrelated
// crate.  2.x libraries never reuse an id (AUTOINCREMENT).
//
// exit 0 = property held on every schema, 1 = violated.
#include <djinterop/djinterop.hpp>

#include <iostream>
#include <string>

namespace e = djinterop::engine;
using djinterop::crate;
using djinterop::database;

static int failures = 0;

static void expect(bool cond, const std::string& schema, const std::string& what)
{
    if (!cond)
    {
        ++failures;
        std::cout << "  [" << schema << "] VIOLATION: " << what << "\n";
    }
}

static void scenario(e::engine_schema schema, const std::string& s)
{
    auto db = e::create_temporary_database(schema);
    auto a = db.create_root_crate("A");
    auto b = db.create_root_crate("B");
    const auto removed_id = b.id();
    db.remove_crate(b);

    expect(!db.crate_by_id(removed_id), s, "crate_by_id finds B right after remove");
    expect(!b.is_valid(), s, "handle to B valid right after remove");

    // An unrelated crate is created afterwards, somewhere else in the forest.
    auto c = a.create_sub_crate("C");

    expect(
        c.id() != removed_id, s,
        "root A; root B; remove(B); A.create_sub_crate(C): C gets id " +
            std::to_string(c.id()) + ", the id of the removed crate B");
    auto found = db.crate_by_id(removed_id);
    expect(
        !found, s,
        "crate_by_id(" + std::to_string(removed_id) +
            ") (id of removed crate B) returns a crate again, named '" +
            (found ? found->name() : std::string{}) + "'");
    bool valid = b.is_valid();
    expect(
        !valid, s,
        std::string("the handle to removed crate B is valid again") +
            (valid ? ", name() = '" + b.name() + "', parent = " +
                         (b.parent() ? std::to_string(b.parent()->id()) : "-")
                   : ""));
}

int main()
{
    for (auto schema : e::supported_schemas)
    {
        auto s = e::to_string(schema);
        try
        {
            scenario(schema, s);
        }
        catch (std::exception& ex)
        {
            ++failures;
            std::cout << "  [" << s << "] unexpected exception: " << ex.what()
                      << "\n";
        }
    }
    std::cout << (failures ? "PROPERTY VIOLATED" : "property held") << " ("
              << failures << " failed checks)\n";
    return failures ? 1 : 0;
}
