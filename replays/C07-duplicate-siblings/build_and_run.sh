#!/bin/sh
W="${1:?usage: $0 <worktree with _build>}"; D="$(cd "$(dirname "$0")" && pwd)"; OUT="$(mktemp -d)"
c++ -std=c++17 -O1 -I"$W/include" -I"$W/_build/include" "$D/demo.cpp" -o "$OUT/demo" -L"$W/_build" -ldjinterop -Wl,-rpath,"$W/_build" || exit 99
timeout 60 "$OUT/demo"; rc=$?; rm -rf "$OUT"; exit $rc
