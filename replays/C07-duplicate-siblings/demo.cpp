// Replay for C07-T17: on 1.x any number of siblings may carry one name; the by-name lookups then
// return one of them, so "lookups by parent and name find exactly those crates" fails.
// exit 0 = every attempt to create a second sibling of the same name is rejected and leaves the forest unchanged.
#include <djinterop/djinterop.hpp>
#include <iostream>
namespace e = djinterop::engine;
int main()
{
    int bad = 0;
    for (auto schema : e::supported_schemas)
    {
        auto db = e::create_temporary_database(schema);
        auto a = db.create_root_crate("A");
        auto b = db.create_root_crate("B");
        auto a1 = a.create_sub_crate("X");
        auto b1 = b.create_sub_crate("X");
        auto report = [&](const char* what, bool threw) {
            if (!threw) { ++bad; std::cout << e::to_string(schema) << ": " << what << " accepted\n"; }
        };
        bool t = false;
        try { db.create_root_crate("A"); } catch (const std::exception&) { t = true; } report("second root crate 'A'", t);
        t = false; try { a.create_sub_crate("X"); } catch (const std::exception&) { t = true; } report("second sub-crate 'X' of A", t);
        t = false; try { b.set_name("A"); } catch (const std::exception&) { t = true; } report("renaming root B to 'A'", t);
        t = false; try { b1.set_parent(a); } catch (const std::exception&) { t = true; } report("moving B/X under A, which has an X", t);
        if (db.crates().size() != 4 || db.root_crates().size() != 2 || a.children().size() != 1 || b.children().size() != 1 ||
            b.name() != "B" || b1.parent()->id() != b.id())
        { ++bad; std::cout << e::to_string(schema) << ": forest changed by a rejected operation\n"; }
        a.set_name("A");          // renaming to the own name stays possible
        a1.set_parent(a);         // as does "moving" to the current parent
    }
    std::cout << bad << " violation(s)\n";
    return bad ? 1 : 0;
}
