#!/bin/sh
# usage: build_and_run.sh <worktree>   (library built in <worktree>/_build)
# exit 0 = property held, non-zero = violated
WT="${1:?usage: $0 <worktree>}"
HERE="$(cd "$(dirname "$0")" && pwd)"
OUT="$(mktemp -d /tmp/hunt2_C14_build_XXXXXX)"
g++ -std=c++17 -O1 -g "$HERE/demo.cpp" \
    -I"$WT/include" -I"$WT/_build/include" \
    -L"$WT/_build" -ldjinterop -lsqlite3 -ldl \
    -Wl,-rpath,"$WT/_build" -rdynamic -o "$OUT/demo" || exit 99
timeout 60 "$OUT/demo"
RC=$?
rm -rf "$OUT"
exit $RC
