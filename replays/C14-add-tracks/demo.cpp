// Violation 1: crate::add_tracks(first, last) is not atomic.
//
// crate::add_tracks is a public mutating crate operation (include/djinterop/
// crate.hpp).  It is an inline template that simply calls add_track() once per
// element; every add_track() commits on its own.  When a statement of the 2nd,
// 3rd, ... element fails, add_tracks() throws, but the tracks added for the
// earlier elements stay in the crate: the crate membership shows a partial
// update.
//
// Part A: exhaustive fault injection.  sqlite3_step is interposed; for every
//         supported schema version and every position k of a write statement
//         issued by add_tracks(), the k-th write reports SQLITE_FULL
//         ("database or disk is full").  Observable state is read through the
//         public API only (crate::tracks()).
// Part B: a genuine failure, no fault injection: another SQLite connection (as
//         another process, e.g. Engine DJ Desktop, would) takes the write lock
//         on m.db while add_tracks() is between two elements, so the second
//         add_track() fails with a real SQLITE_BUSY ("database is locked").
//
// exit 0 = property held everywhere, exit 1 = violated.
#include <dlfcn.h>
#include <sqlite3.h>
#include <stdlib.h>
#include <unistd.h>

#include <algorithm>
#include <cstring>
#include <iostream>
#include <iterator>
#include <string>
#include <vector>

#include <djinterop/djinterop.hpp>

namespace dj = djinterop;
namespace e = djinterop::engine;

// ------------------------------------------------------------ fault injector
static bool g_armed = false;
static int g_count = 0, g_fail_at = 0;
static bool g_fired = false;

extern "C" int sqlite3_step(sqlite3_stmt* s)
{
    static auto real = reinterpret_cast<int (*)(sqlite3_stmt*)>(
        dlsym(RTLD_NEXT, "sqlite3_step"));
    // Write statements only (BEGIN/COMMIT/ROLLBACK and SELECT are read-only
    // according to sqlite3_stmt_readonly).
    if (g_armed && !sqlite3_stmt_readonly(s))
    {
        if (++g_count == g_fail_at)
        {
            g_fired = true;
            return SQLITE_FULL;
        }
    }
    return real(s);
}

// ------------------------------------------------------------------ helpers
static std::string make_temp_dir()
{
    char tmpl[] = "/tmp/hunt2_C14_1_XXXXXX";
    char* d = mkdtemp(tmpl);
    if (!d)
    {
        perror("mkdtemp");
        exit(2);
    }
    return d;
}

static std::vector<int64_t> member_ids(const dj::crate& c)
{
    std::vector<int64_t> ids;
    for (auto& t : c.tracks())
        ids.push_back(t.id());
    std::sort(ids.begin(), ids.end());
    return ids;
}

static std::string show(const std::vector<int64_t>& v)
{
    std::string s = "{";
    for (auto x : v)
        s += (s.size() > 1 ? "," : "") + std::to_string(x);
    return s + "}";
}

static dj::track make_track(dj::database& db, int n)
{
    dj::track_snapshot s;
    s.relative_path = "../Music/track" + std::to_string(n) + ".mp3";
    s.title = "Track " + std::to_string(n);
    return db.create_track(s);
}

// ------------------------------------------------------------------- part A
static int part_a()
{
    int violations = 0;
    for (auto schema : e::supported_schemas)
    {
        auto dir = make_temp_dir();
        {
            auto db = e::create_database(dir, schema);
            auto crate = db.create_root_crate("Crate");
            std::vector<dj::track> tracks{
                make_track(db, 1), make_track(db, 2), make_track(db, 3)};

            int first_bad_k = 0, bad = 0, positions = 0;
            std::string example;
            for (int k = 1; k < 100; ++k)
            {
                crate.clear_tracks();
                auto before = member_ids(crate);

                g_count = 0;
                g_fail_at = k;
                g_fired = false;
                g_armed = true;
                bool threw = false;
                std::string what;
                try
                {
                    crate.add_tracks(tracks.begin(), tracks.end());
                }
                catch (const std::exception& ex)
                {
                    threw = true;
                    what = ex.what();
                }
                g_armed = false;
                if (!g_fired)
                    break;  // fewer than k write statements: done
                ++positions;

                auto after = member_ids(crate);
                if (!threw || before != after)
                {
                    ++bad;
                    if (!first_bad_k)
                    {
                        first_bad_k = k;
                        example = std::string{threw ? "threw '" + what + "'" : "did NOT throw"} +
                                  ", members before=" + show(before) +
                                  " after=" + show(after);
                    }
                }
            }
            std::cout << "[A] schema " << schema << ": " << positions
                      << " write positions, " << bad << " leave a partial crate";
            if (bad)
                std::cout << " (first at k=" << first_bad_k << ": " << example << ")";
            std::cout << "\n";
            violations += bad;
        }
        (void)!system(("rm -rf '" + dir + "'").c_str());
    }
    return violations;
}

// ------------------------------------------------------------------- part B
// An input iterator over tracks that, when it moves on to the second element,
// lets "another application" take the write lock on the library's m.db.
struct locking_iterator
{
    using iterator_category = std::input_iterator_tag;
    using value_type = dj::track;
    using difference_type = std::ptrdiff_t;
    using pointer = const dj::track*;
    using reference = const dj::track&;

    const std::vector<dj::track>* v;
    size_t pos;
    sqlite3* other;

    reference operator*() const { return (*v)[pos]; }
    locking_iterator& operator++()
    {
        ++pos;
        if (pos == 1 && other)
        {
            // The other application starts writing to the library.
            if (sqlite3_exec(other, "BEGIN IMMEDIATE", nullptr, nullptr, nullptr) != SQLITE_OK)
            {
                std::cerr << "could not take lock: " << sqlite3_errmsg(other) << "\n";
                exit(2);
            }
        }
        return *this;
    }
    bool operator!=(const locking_iterator& o) const { return pos != o.pos; }
    bool operator==(const locking_iterator& o) const { return pos == o.pos; }
};

static int part_b(e::engine_schema schema, const std::string& m_db_rel)
{
    int violations = 0;
    auto dir = make_temp_dir();
    {
        auto db = e::create_database(dir, schema);
        auto crate = db.create_root_crate("Crate");
        std::vector<dj::track> tracks{make_track(db, 1), make_track(db, 2), make_track(db, 3)};

        sqlite3* other = nullptr;
        if (sqlite3_open((dir + m_db_rel).c_str(), &other) != SQLITE_OK)
        {
            std::cerr << "cannot open second connection\n";
            exit(2);
        }

        auto before = member_ids(crate);
        bool threw = false;
        std::string what;
        try
        {
            crate.add_tracks(
                locking_iterator{&tracks, 0, other},
                locking_iterator{&tracks, tracks.size(), nullptr});
        }
        catch (const std::exception& ex)
        {
            threw = true;
            what = ex.what();
        }
        // The other application finishes (without having changed anything).
        sqlite3_exec(other, "ROLLBACK", nullptr, nullptr, nullptr);
        sqlite3_close(other);

        auto after = member_ids(crate);
        std::cout << "[B] schema " << schema << ": add_tracks of 3 tracks while m.db gets locked: "
                  << (threw ? "threw '" + what + "'" : std::string{"did NOT throw"})
                  << "; members before=" << show(before) << " after=" << show(after) << "\n";
        if (!threw || before != after)
            ++violations;

        // Close and reopen: the partial membership is persistent.
    }
    {
        auto db = e::load_database(dir);
        auto crate = db.root_crate_by_name("Crate");
        std::cout << "[B]   after close and reopen the crate has members "
                  << show(member_ids(*crate)) << "\n";
    }
    (void)!system(("rm -rf '" + dir + "'").c_str());
    return violations;
}

int main()
{
    int violations = 0;
    violations += part_a();
    violations += part_b(e::latest_v2_schema, "/Database2/m.db");
    violations += part_b(e::latest_v1_schema, "/m.db");
    if (violations)
    {
        std::cout << "RESULT: property VIOLATED (" << violations
                  << " failing positions left a partially updated crate)\n";
        return 1;
    }
    std::cout << "RESULT: property held\n";
    return 0;
}
