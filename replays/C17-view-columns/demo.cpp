// C17 violation 3: in Database2 libraries (schema 2.x and 3.0.0) the columns of
// the declared views are never inspected, so a view with a missing, renamed or
// extra column is accepted.  (The 1.x validators DO check view columns with
// PRAGMA table_info - see the control on schema 1.18.0 below.)
//
// For each 2.x / 3.0.0 schema and each declared view V, three single-element
// mutations are applied (one per fresh library):
//   drop   : V loses its first column
//   rename : V's first column c becomes c_r
//   add    : V gains a column zzz_extra
// The view is re-created as  CREATE VIEW V AS SELECT <new column list> FROM (<old body>).
// Property: verify() must throw database_inconsistency for each.
#include <djinterop/djinterop.hpp>
#include <sqlite3.h>

#include <cstdlib>
#include <iostream>
#include <string>
#include <vector>

namespace e = djinterop::engine;

struct conn
{
    sqlite3* h = nullptr;
    explicit conn(const std::string& file)
    {
        if (sqlite3_open(file.c_str(), &h) != SQLITE_OK) { std::cerr << "open failed\n"; std::exit(99); }
    }
    ~conn() { sqlite3_close(h); }
    void exec(const std::string& sql)
    {
        char* err = nullptr;
        if (sqlite3_exec(h, sql.c_str(), nullptr, nullptr, &err) != SQLITE_OK)
        {
            std::cerr << "mutation failed: " << (err ? err : "?") << "\n  " << sql << "\n";
            std::exit(99);
        }
    }
    std::vector<std::string> column(const std::string& sql, int col)
    {
        std::vector<std::string> out;
        sqlite3_stmt* st = nullptr;
        if (sqlite3_prepare_v2(h, sql.c_str(), -1, &st, nullptr) != SQLITE_OK) { std::cerr << "prepare failed: " << sql << "\n"; std::exit(99); }
        while (sqlite3_step(st) == SQLITE_ROW)
            out.emplace_back(reinterpret_cast<const char*>(sqlite3_column_text(st, col)));
        sqlite3_finalize(st);
        return out;
    }
};

static std::vector<std::string> views_of(const std::string& file)
{
    conn c{file};
    return c.column("SELECT name FROM sqlite_master WHERE type='view' ORDER BY name", 0);
}

static void mutate_view(const std::string& file, const std::string& view, const std::string& mode)
{
    conn c{file};
    auto sql = c.column("SELECT sql FROM sqlite_master WHERE type='view' AND name='" + view + "'", 0).at(0);
    auto cols = c.column("PRAGMA table_info('" + view + "')", 1);
    // body = everything after the first " AS "
    auto pos = sql.find(" AS ");
    std::string body = sql.substr(pos + 4);
    while (!body.empty() && (body.back() == ';' || body.back() == ' ' || body.back() == '\n')) body.pop_back();
    std::string sel;
    for (size_t i = 0; i < cols.size(); ++i)
    {
        if (i == 0 && mode == "drop") continue;
        if (!sel.empty()) sel += ", ";
        sel += "\"" + cols[i] + "\"";
        if (i == 0 && mode == "rename") sel += " AS \"" + cols[i] + "_r\"";
    }
    if (mode == "add") sel += ", 1 AS zzz_extra";
    c.exec("DROP VIEW \"" + view + "\"");
    c.exec("CREATE VIEW \"" + view + "\" AS SELECT " + sel + " FROM (" + body + ")");
}

static int verify_dir(const std::string& dir, std::string& msg)
{
    try
    {
        auto db = e::load_database(dir);
        db.verify();
        msg = "accepted";
        return 0;
    }
    catch (const djinterop::database_inconsistency& ex) { msg = std::string{"database_inconsistency: "} + ex.what(); return 1; }
    catch (const std::exception& ex) { msg = std::string{"other exception: "} + ex.what(); return 2; }
}

int main(int argc, char** argv)
{
    std::string base = argc > 1 ? argv[1] : "/tmp/hunt/C17/3/scratch";
    std::vector<e::engine_schema> schemas(e::supported_v2_schemas.begin(), e::supported_v2_schemas.end());
    schemas.push_back(e::engine_schema::schema_3_0_0);
    schemas.push_back(e::engine_schema::schema_1_18_0_os);  // control: 1.x checks view columns

    int violations = 0, controls_missed = 0, n = 0;
    for (auto s : schemas)
    {
        const bool v2 = s >= e::engine_schema::schema_2_18_0;
        const std::string rel = v2 ? "/Database2/m.db" : "/m.db";
        std::vector<std::string> views;
        {
            std::string dir = base + "/probe";
            std::system(("rm -rf '" + dir + "' && mkdir -p '" + dir + "'").c_str());
            { auto db = e::create_database(dir, s); }
            views = views_of(dir + rel);
        }
        for (auto& view : views)
        {
            for (std::string mode : {"drop", "rename", "add"})
            {
                std::string dir = base + "/lib" + std::to_string(n++);
                std::system(("rm -rf '" + dir + "' && mkdir -p '" + dir + "'").c_str());
                {
                    auto db = e::create_database(dir, s);
                    db.verify();
                }
                mutate_view(dir + rel, view, mode);
                std::string msg;
                int r = verify_dir(dir, msg);
                std::cout << (v2 ? "" : "control ") << e::to_string(s) << "  view " << view << ": " << mode
                          << " column -> " << msg << "\n";
                if (r != 1) { if (v2) ++violations; else ++controls_missed; }
            }
        }
    }
    std::cout << "\nDatabase2 view-column mutations NOT reported as database_inconsistency: " << violations
              << "\n1.x control mutations not reported: " << controls_missed << "\n";
    return (violations == 0 && controls_missed == 0) ? 0 : 1;
}
