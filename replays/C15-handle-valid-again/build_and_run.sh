#!/bin/bash
# usage: build_and_run.sh <worktree>   (library must be built in <worktree>/_build)
# exit 0 = property held, non-zero = violated
set -u
WT="${1:?usage: build_and_run.sh <worktree>}"
HERE="$(cd "$(dirname "$0")" && pwd)"
g++ -std=c++17 -O1 -g "$HERE/demo.cpp" -I"$WT/include" -I"$WT/_build/include" \
    -L"$WT/_build" -ldjinterop -Wl,-rpath,"$WT/_build" -o "$HERE/demo" || { echo "BUILD FAILED"; exit 2; }
timeout 60 "$HERE/demo"
