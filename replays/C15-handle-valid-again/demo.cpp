// Violation 2: on 1.x schemas the ids of removed tracks and crates are handed
// out again, and the rows that referred to the removed entity are never
// deleted.  A handle to a removed track / crate therefore reports
// is_valid() == true again as soon as the next track / crate is created, and
// the new entity silently inherits the crate membership / parent of the
// removed one.
//
// exit 0: every handle to a removed entity kept reporting is_valid() == false
// exit 1: some handle to a removed entity reported is_valid() == true
#include <iostream>

#include <djinterop/djinterop.hpp>

namespace e = djinterop::engine;
using namespace djinterop;

int main()
{
    int violations = 0;
    for (auto schema : e::supported_schemas)
    {
        auto db = e::create_temporary_database(schema);

        track_snapshot s;
        s.relative_path = "old.mp3";
        auto old_track = db.create_track(s);
        auto root = db.create_root_crate("Root");
        auto old_crate = root.create_sub_crate("Sub");
        old_crate.add_track(old_track);

        // Remove the track, then create an unrelated one.
        db.remove_track(old_track);
        bool t_after_remove = old_track.is_valid();
        track_snapshot s2;
        s2.relative_path = "new.mp3";
        auto new_track = db.create_track(s2);
        bool t_after_create = old_track.is_valid();
        bool new_track_in_crate = false;
        for (auto&& t : old_crate.tracks())
            new_track_in_crate = new_track_in_crate || t.id() == new_track.id();

        // Remove the sub-crate, then create an unrelated ROOT crate.
        db.remove_crate(old_crate);
        bool c_after_remove = old_crate.is_valid();
        auto new_crate = db.create_root_crate("Other");
        bool c_after_create = old_crate.is_valid();
        std::string parent_of_new_root = "(none)";
        try
        {
            auto p = new_crate.parent();
            if (p)
                parent_of_new_root = p->name();
        }
        catch (const std::exception& ex)
        {
            parent_of_new_root = std::string{"exception: "} + ex.what();
        }

        bool bad = t_after_remove || t_after_create || c_after_remove ||
                   c_after_create;
        std::cout << e::to_string(schema) << ": removed track handle is_valid: "
                  << t_after_remove << " -> " << t_after_create
                  << " after next create_track (ids " << old_track.id() << "/"
                  << new_track.id() << "), new track already in old crate: "
                  << new_track_in_crate
                  << " | removed crate handle is_valid: " << c_after_remove
                  << " -> " << c_after_create
                  << " after next create_root_crate (ids " << old_crate.id()
                  << "/" << new_crate.id()
                  << "), parent of the new ROOT crate: " << parent_of_new_root
                  << ", tracks in the new crate: " << new_crate.tracks().size()
                  << (bad ? "   <-- VIOLATION" : "") << "\n";
        if (bad)
            ++violations;
    }

    std::cout << (violations ? "RESULT: property VIOLATED on "
                             : "RESULT: property held, violations on ")
              << violations << " schema(s)" << std::endl;
    return violations ? 1 : 0;
}
