#!/bin/sh
# usage: build_and_run.sh <worktree>   (exit 0 = property held, non-zero = violated)
W=${1:-/tmp/wth_C17}
D=$(cd "$(dirname "$0")" && pwd)
S=$(mktemp -d /tmp/hunt/C17/scratch.XXXXXX)
g++ -std=c++17 -O1 -I"$W/include" -I"$W/_build/include" "$D/demo.cpp" -o "$S/demo" \
    -L"$W/_build" -ldjinterop -lsqlite3 -Wl,-rpath,"$W/_build" || { rm -rf "$S"; exit 98; }
timeout 60 "$S/demo" "$S"
rc=$?
rm -rf "$S"
echo "exit code: $rc"
exit $rc
