// C17 violation 1: an extra GENERATED column is invisible to verify().
//
// For every schema version: create a library through the public API, close it,
// add ONE extra column to ONE table with plain SQL
//     ALTER TABLE Track ADD COLUMN zzz_extra INTEGER GENERATED ALWAYS AS (1) VIRTUAL
// reopen through the public API and call database::verify().
// Property: verify() must throw database_inconsistency (extra column).
// Control: the same mutation with an ordinary column IS reported.
#include <djinterop/djinterop.hpp>
#include <sqlite3.h>

#include <cstdlib>
#include <iostream>
#include <string>
#include <vector>

namespace e = djinterop::engine;

static void exec_sql(const std::string& file, const std::string& sql)
{
    sqlite3* h = nullptr;
    if (sqlite3_open(file.c_str(), &h) != SQLITE_OK) { std::cerr << "open failed\n"; std::exit(99); }
    char* err = nullptr;
    if (sqlite3_exec(h, sql.c_str(), nullptr, nullptr, &err) != SQLITE_OK)
    {
        std::cerr << "mutation failed: " << (err ? err : "?") << "\n";
        std::exit(99);
    }
    sqlite3_close(h);
}

// returns: 0 = verify accepted, 1 = database_inconsistency, 2 = other exception
static int verify_dir(const std::string& dir, std::string& msg)
{
    try
    {
        auto db = e::load_database(dir);
        db.verify();
        msg = "accepted";
        return 0;
    }
    catch (const djinterop::database_inconsistency& ex) { msg = std::string{"database_inconsistency: "} + ex.what(); return 1; }
    catch (const std::exception& ex) { msg = std::string{"other exception: "} + ex.what(); return 2; }
}

int main(int argc, char** argv)
{
    std::string base = argc > 1 ? argv[1] : "/tmp/hunt/C17/1/scratch";
    std::vector<e::engine_schema> schemas(e::supported_schemas.begin(), e::supported_schemas.end());
    schemas.push_back(e::engine_schema::schema_3_0_0);

    int violations = 0, n = 0;
    for (auto s : schemas)
    {
        const bool v2 = s >= e::engine_schema::schema_2_18_0;
        // (file relative to library dir, table)
        std::vector<std::pair<std::string, std::string>> targets;
        if (v2) targets = {{"/Database2/m.db", "Track"}, {"/Database2/m.db", "Information"}};
        else targets = {{"/m.db", "Track"}, {"/p.db", "PerformanceData"}};

        for (auto& [rel, table] : targets)
        {
            for (int generated = 0; generated <= 1; ++generated)
            {
                std::string dir = base + "/lib" + std::to_string(n++);
                std::system(("rm -rf '" + dir + "' && mkdir -p '" + dir + "'").c_str());
                {
                    auto db = e::create_database(dir, s);
                    db.verify();  // a freshly created library must be accepted
                }
                exec_sql(dir + rel, "ALTER TABLE " + table + " ADD COLUMN zzz_extra INTEGER" +
                                        (generated ? " GENERATED ALWAYS AS (1) VIRTUAL" : ""));
                std::string msg;
                int r = verify_dir(dir, msg);
                std::cout << e::to_string(s) << " " << rel << " " << table
                          << (generated ? " +generated column: " : " +ordinary column:  ") << msg << "\n";
                if (r != 1) ++violations;
            }
        }
    }
    std::cout << "\nmutations NOT reported as database_inconsistency: " << violations << "\n";
    return violations == 0 ? 0 : 1;
}
